"""Two unrelated classes that share a __name__ (e.g. `class Client` in two modules) share one 'class'-scoped retry semaphore."""
import asyncio
from bubus.helpers import retry

def make(module):
    class Client:
        @retry(retries=0, timeout=5, semaphore_limit=1, semaphore_scope='class', semaphore_lax=False, semaphore_timeout=0.2)
        async def fetch(self):
            await asyncio.sleep(0.5)
            return module
    Client.__module__ = module
    return Client

async def main():
    A, B = make('pkg_a.client'), make('pkg_b.client')
    r = await asyncio.gather(A().fetch(), B().fetch(), return_exceptions=True)
    print(r)
    assert r == ['pkg_a.client', 'pkg_b.client'], 'different classes blocked each other'

asyncio.run(main())
