import asyncio
from bubus import EventBus, BaseEvent
class Errors(Exception):
    def __init__(self, items): super().__init__(f'{len(items)} errors'); self.items = items
    def __len__(self): return len(self.items)
class E(BaseEvent): pass
async def main():
    bus = EventBus('B')
    async def bad(e): raise Errors([])
    async def good(e): return 'ok'
    bus.on(E, bad); bus.on(E, good)
    ev = await bus.dispatch(E())
    print([(r.status, type(r.error).__name__) for r in ev.event_results.values()])
    for name in ('event_result', 'event_results_list', 'event_results_by_handler_id', 'event_results_flat_dict', 'event_results_flat_list'):
        try:
            v = await getattr(ev, name)(raise_if_any=True, raise_if_none=False) if name != 'event_result' else await ev.event_result(raise_if_any=True, raise_if_none=False)
            print(name, 'returned', v)
        except Exception as ex:
            print(name, 'raised', type(ex).__name__)
    for r in ev.event_results.values():
        try:
            print('await result ->', await r)
        except Exception as ex:
            print('await result raised', type(ex).__name__)
    await bus.stop()
asyncio.run(main())
