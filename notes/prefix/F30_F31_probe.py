import asyncio
from bubus import EventBus, BaseEvent
class X(BaseEvent): pass
class P(BaseEvent): pass
class C(BaseEvent): pass
class E(BaseEvent): pass
async def t1():
    bus=EventBus(name='L1')
    async def hx(e): await bus.dispatch(P())
    async def hp(e): bus.dispatch(C(event_parent_id=e.event_parent_id))   # explicit parent = grandparent, fire and forget
    async def hc(e): await asyncio.sleep(0.05)
    bus.on(X,hx); bus.on(P,hp); bus.on(C,hc)
    x=bus.dispatch(X())
    try: await asyncio.wait_for(x,2); print('1 ok')
    except asyncio.TimeoutError: print('1 HANG: await X never returns', x.event_status)
    await bus.stop()
async def t2():
    try:
        bus=EventBus(name='_under')
    except BaseException as ex: print('2 ctor raised', type(ex).__name__); return
    bus.on(E, lambda e: 1)
    ev=bus.dispatch(E())
    try: await asyncio.wait_for(ev,2); print('2 ok')
    except asyncio.TimeoutError: print('2 HANG: event on bus "_under" never completes', ev.event_status)
    await bus.stop()
async def t3():
    bus=EventBus(name='L3')
    async def inner(): await asyncio.sleep(10)
    async def h(e):
        t=asyncio.create_task(inner()); await asyncio.sleep(0.01); t.cancel(); await t   # awaiting a cancelled task raises CancelledError in the handler
    async def h2(e): return 2
    bus.on(E,h); bus.on(E,h2)
    ev=bus.dispatch(E()); ev2=bus.dispatch(E())
    try: await asyncio.wait_for(ev,2); print('3 first ok', [(r.status,type(r.error).__name__) for r in ev.event_results.values()])
    except asyncio.TimeoutError: print('3 HANG first', ev.event_status, [(r.status) for r in ev.event_results.values()])
    try: await asyncio.wait_for(ev2,2); print('3 second ok')
    except asyncio.TimeoutError: print('3 HANG second event too (run loop dead?)', bus._is_running, bus._runloop_task.done() if bus._runloop_task else None)
    await bus.stop()
async def main():
    await t1(); await t2(); await t3()
asyncio.run(main())
