"""An event class that defines __len__ / __bool__ and is falsy never signals completion when its last child finishes later."""
import asyncio
from pydantic import Field
from bubus import BaseEvent, EventBus


class Batch(BaseEvent):
    items: list = Field(default_factory=list)

    def __len__(self):
        return len(self.items)


class Step(BaseEvent):
    pass


async def main():
    bus = EventBus(name='F29')

    async def on_batch(e):
        bus.dispatch(Step())  # fire-and-forget child: the batch is complete only when it is

    async def on_step(e):
        await asyncio.sleep(0.05)

    bus.on(Batch, on_batch)
    bus.on(Step, on_step)
    batch = bus.dispatch(Batch())  # empty batch: falsy
    try:
        await asyncio.wait_for(batch, 2)
        print('ok: the empty batch completed')
    except asyncio.TimeoutError:
        print('FAIL: await batch hangs although everything is processed:', batch.event_status, [c.event_status for c in batch.event_children])
        raise SystemExit(1)
    finally:
        await bus.stop()

asyncio.run(main())
