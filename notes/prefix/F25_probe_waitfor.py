import asyncio
from bubus import EventBus, BaseEvent
class P(BaseEvent): pass
class A(BaseEvent): pass
class Q(BaseEvent): pass
log=[]
async def main():
    bus=EventBus(name='G')
    async def ha(e):
        log.append('A+'); 
        try:
            await asyncio.sleep(0.5)
        except asyncio.CancelledError:
            log.append('A cancelled'); raise
        log.append('A-')
    async def hq(e): log.append('Q')
    async def hp(e):
        a=bus.dispatch(A())
        try:
            await asyncio.wait_for(a, 0.05)
        except asyncio.TimeoutError:
            log.append('wait_for timeout')
        log.append(('after', a.event_status, [(r.status, type(r.error).__name__) for r in a.event_results.values()]))
        return a
    bus.on(P,hp); bus.on(A,ha); bus.on(Q,hq)
    p=bus.dispatch(P())
    q=bus.dispatch(Q())
    try:
        await asyncio.wait_for(p, 3)
        print('parent done', p.event_status)
    except asyncio.TimeoutError:
        print('PARENT NEVER COMPLETES', p.event_status)
    a=list(p.event_results.values())[0].result
    print(log)
    print('child', a.event_status if a else None, q.event_status)
    try:
        await asyncio.wait_for(bus.wait_until_idle(), 2); print('idle ok')
    except asyncio.TimeoutError: print('IDLE HANGS')
    await bus.stop()
asyncio.run(main())
