import asyncio, sys, logging, gc, warnings
sys.path.insert(0,'/tmp/probe'); warnings.simplefilter('ignore'); logging.disable(logging.CRITICAL)
from vloop import *
from bubus import EventBus, BaseEvent
T=lambda: asyncio.get_event_loop().time()
class P(BaseEvent): pass
class C(BaseEvent): pass
class G(BaseEvent): pass
class L(BaseEvent): pass   # later event
def scenario(timeout, awaited=True):
    async def main():
        bus=EventBus(name='A'); log=[]; evs={}
        async def hp1(e):
            log.append(('p1-enter',T()))
            try:
                await asyncio.sleep(1)                    # [0,1) before dispatch
                f=bus.dispatch(C(event_timeout=None)); evs['fire']=f     # fire-and-forget child
                await asyncio.sleep(1)                    # [1,2)
                c=bus.dispatch(C(event_timeout=None)); evs['c']=c
                if awaited: await c                       # child handler 2s incl grandchild 1s
                log.append(('p1-after-await',T()))
                await asyncio.sleep(1)
                log.append(('p1-done',T()))
            except asyncio.CancelledError:
                log.append(('p1-cancelled',T())); raise
        async def hp2(e): log.append(('p2-enter',T())); return 'p2'
        async def hc(e):
            await asyncio.sleep(0.5); g=bus.dispatch(G(event_timeout=None)); evs.setdefault('g',[]).append(g); await g; await asyncio.sleep(0.5)
        async def hg(e): await asyncio.sleep(1)
        async def hl(e): log.append(('later',T()))
        bus.on(P,hp1); bus.on(P,hp2); bus.on(C,hc); bus.on(G,hg); bus.on(L,hl)
        p=bus.dispatch(P(event_timeout=timeout))
        out={}
        try: await asyncio.wait_for(p, 200); out['p']='done'
        except TimeoutError: out['p']='HUNG'
        out['p_results']=[(r.handler_name.split('.')[-1], r.status, type(r.error).__name__) for r in p.event_results.values()]
        l=bus.dispatch(L())
        try: await asyncio.wait_for(l, 200); out['later']='done'
        except TimeoutError: out['later']='HUNG'
        try: await asyncio.wait_for(bus.wait_until_idle(), 200); out['idle']='ok'
        except TimeoutError: out['idle']='HUNG'
        def st(e): return (e.event_status, e.event_completed_signal.is_set(), [(r.status,type(r.error).__name__) for r in e.event_results.values()])
        out['fire']=st(evs['fire']) if 'fire' in evs else None
        out['c']=st(evs['c']) if 'c' in evs else None
        out['g']=[st(g) for g in evs.get('g',[])]
        out['resumed_after_deadline']=[x for x in log if x[0].startswith('p1') and x[0]!='p1-cancelled' and x[1]>timeout+1e-6]
        return out
    return main
for tmo in (0.5, 1.5, 2.2, 2.7, 3.2, 3.8, 4.5, 10):
    try:
        r,loop=run(scenario(tmo), horizon=3000)
        print(f'timeout={tmo}:', {k:v for k,v in r.items()})
    except Hang as e: print(tmo,'HANG',e)
    for b in list(EventBus.all_instances): b._is_running=False
    EventBus.all_instances.clear(); gc.collect()
