import asyncio, sys, logging, gc, warnings, typing
sys.path.insert(0,'/tmp/probe')
warnings.simplefilter('ignore')
logging.disable(logging.CRITICAL)
from vloop import *
from bubus import EventBus, BaseEvent
T=lambda: asyncio.get_event_loop().time()
class P(BaseEvent): pass
class C(BaseEvent): pass
class U(BaseEvent):
    n:int=0
def attempt(name, fn, **kw):
    kw.setdefault('horizon', 2000.0)
    try:
        r, loop = run(fn, **kw)
        print(f'[{name}] ->', r, f'(vt={loop.time():.2f})')
    except Hang as e:
        print(f'[{name}] HANG:', e)
    except Exception as e:
        print(f'[{name}] EXC:', type(e).__name__, e)
    for b in list(EventBus.all_instances):
        b._is_running=False
    EventBus.all_instances.clear(); gc.collect()
async def f9():
    a=EventBus(name='A'); b=EventBus(name='B'); out=[]
    async def ha_after(e): out.append(('A-handler sees', e.event_bus.name))
    async def hb(e): out.append(('B-handler sees', e.event_bus.name))
    a.on('*', b.dispatch); a.on('*', ha_after); b.on(U,hb)
    e=a.dispatch(U()); await a.wait_until_idle(); await b.wait_until_idle()
    return out
attempt('F9 event_bus', f9)

# F14? background task spawned from handler keeps holds_global_lock=True context
async def f14():
    a=EventBus(name='A'); iv=[]; bg=[]
    async def background():
        await asyncio.sleep(2)            # handler long gone
        c=a.dispatch(C()); iv.append(('bg-await-begin',T()))
        await c; iv.append(('bg-await-end',T(), c.event_status, c.event_parent_id is not None))
    async def hp(e):
        bg.append(asyncio.create_task(background()))
    async def hc(e):
        iv.append(('C-enter',T())); await asyncio.sleep(1); iv.append(('C-exit',T()))
    async def hu(e):
        iv.append(('U-enter',e.n,T())); await asyncio.sleep(1); iv.append(('U-exit',e.n,T()))
    a.on(P,hp); a.on(C,hc); a.on(U,hu)
    await a.dispatch(P())
    await asyncio.sleep(1.5)
    a.dispatch(U(n=1)); a.dispatch(U(n=2))
    await bg[0]
    await a.wait_until_idle()
    return iv
attempt('F14 leaked handler ctx in bg task', f14)
