import asyncio, sys, logging, gc, warnings
sys.path.insert(0,'/tmp/probe'); warnings.simplefilter('ignore'); logging.disable(logging.CRITICAL)
from vloop import *
from bubus import EventBus, BaseEvent
import bubus.service as S
T=lambda: asyncio.get_event_loop().time()
class U(BaseEvent):
    n:int=0
class C(BaseEvent): pass
orig_start=EventBus._start
def traced_start(self):
    was=self._is_running
    orig_start(self)
    if not was and self._is_running:
        import traceback
        print(f'  [{T():.3f}] {self.name} (re)started by:', [f.name for f in traceback.extract_stack()[-6:-1]])
EventBus._start=traced_start
async def main():
    a=EventBus(name='A'); log=[]
    async def h1(e): log.append(('h1',e.n,T())); await asyncio.sleep(0.3); c=a.dispatch(C()); await c; await asyncio.sleep(0.2)
    async def h2(e): log.append(('h2',e.n,T())); await asyncio.sleep(0.25)
    def h3(e): log.append(('h3',e.n,T()))
    async def hc(e): log.append(('hc',0,T())); await asyncio.sleep(0.1)
    a.on(U,h1); a.on(U,h2); a.on(U,h3); a.on(C,hc)
    for i in range(3): a.dispatch(U(n=i))
    await asyncio.sleep(float(sys.argv[1]))
    t0=T(); await a.stop(); print(f'  stop returned at {T():.3f}, runloop_task={a._runloop_task}, is_running={a._is_running}')
    await asyncio.sleep(3)
    return log
r,loop=run(main, horizon=100); print(r)
