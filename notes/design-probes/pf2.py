import asyncio, sys, logging, gc, warnings, typing
sys.path.insert(0,'/tmp/probe')
warnings.simplefilter('ignore')
logging.disable(logging.CRITICAL)
from vloop import *
from bubus import EventBus, BaseEvent
from bubus.helpers import retry
import bubus.helpers as H
T=lambda: asyncio.get_event_loop().time()
class P(BaseEvent): pass
class C(BaseEvent): pass
class U(BaseEvent):
    n:int=0
def attempt(name, fn, **kw):
    kw.setdefault('horizon', 2000.0)
    try:
        r, loop = run(fn, **kw)
        print(f'[{name}] ->', r, f'(vt={loop.time():.2f})')
    except Hang as e:
        print(f'[{name}] HANG:', e)
    except Exception as e:
        print(f'[{name}] EXC:', type(e).__name__, e)
    for b in list(EventBus.all_instances):
        b._is_running=False
    EventBus.all_instances.clear(); gc.collect()

class R(BaseEvent):
    d:int=0
def mk_f2(maxd, awaited):
    async def f2():
        bus=EventBus(name='A'); seen=[]; evs=[]
        async def hr(e):
            seen.append(e.d)
            if e.d<maxd:
                c=bus.dispatch(R(d=e.d+1)); evs.append(c)
                if awaited: await c
        bus.on(R,hr)
        r=bus.dispatch(R()); evs.insert(0,r)
        try:
            await asyncio.wait_for(r, 500); res='ok'
        except TimeoutError: res='HUNG'
        try:
            await asyncio.wait_for(bus.wait_until_idle(), 500); idle='ok'
        except TimeoutError: idle='HUNG'
        return res, idle, seen, [e.event_status for e in evs]
    return f2
for maxd in (1,2,3,4):
    for aw in (False,True):
        attempt(f'F2 recursion maxd={maxd} awaited={aw}', mk_f2(maxd,aw))

# F9 event_bus after forward
async def f9():
    a=EventBus(name='A'); b=EventBus(name='B'); out=[]
    async def ha_after(e): out.append(('A-handler sees', e.event_bus.name))
    async def hb(e): out.append(('B-handler sees', e.event_bus.name))
    a.on('*', b.dispatch); a.on(U, ha_after); b.on(U,hb)
    e=a.dispatch(U()); await a.wait_until_idle(); await b.wait_until_idle()
    return out
attempt('F9 event_bus', f9)

# F11 eviction of in-flight parent
async def f11():
    bus=EventBus(name='A', max_history_size=3); out={}
    async def hp(e):
        for i in range(6): bus.dispatch(U(n=i))
    async def hu(e): pass
    bus.on(P,hp); bus.on(U,hu)
    p=bus.dispatch(P())
    try:
        await asyncio.wait_for(p, 500); out['parent']='ok'
    except TimeoutError: out['parent']='HUNG'
    out['status']=p.event_status; out['children']=[c.event_status for c in p.event_children]
    out['in_hist']=p.event_id in bus.event_history
    return out
attempt('F11 evict parent', f11)

# F12 non-class result types
async def f12():
    out=[]
    for rt,val in [(int|None, 5),(typing.Optional[str],'x'),(typing.Union[int,str],3),(typing.Literal['a','b'],'a'),(int,5),(int,'notint'),(list[int],[1,2]),(list[int],['x'])]:
        bus=EventBus()
        class Ev(BaseEvent): pass
        async def h(e): return val
        bus.on(Ev,h)
        e=bus.dispatch(Ev(event_result_type=rt))
        try:
            await asyncio.wait_for(e,100)
            r=list(e.event_results.values())[0]
            out.append((str(rt),val,r.status,r.result,type(r.error).__name__))
        except Exception as ex:
            out.append((str(rt),val,'AWAIT-EXC',type(ex).__name__))
        await bus.stop()
    return out
attempt('F12 result types', f12)
