import asyncio, sys, logging, gc, warnings
sys.path.insert(0,'/tmp/probe'); warnings.simplefilter('ignore'); logging.disable(logging.CRITICAL)
from vloop import *
from bubus import EventBus, BaseEvent
class P(BaseEvent): pass
class U(BaseEvent):
    n:int=0
async def f3():
    bus=EventBus(name='A', max_history_size=500); out={'rej':0,'acc':0,'exs':set()}
    rejected=[]
    async def hp(e):
        for i in range(120):
            u=U(n=i)
            try: bus.dispatch(u); out['acc']+=1
            except Exception as ex: out['rej']+=1; out['exs'].add(type(ex).__name__); rejected.append(u)
    seen=[]
    async def hu(e): seen.append(e.n)
    bus.on(P,hp); bus.on(U,hu)
    p=bus.dispatch(P())
    try:
        await asyncio.wait_for(p, 500); out['parent']='completed'
    except TimeoutError: out['parent']='HUNG'
    out['nchildren']=len(p.event_children); out['handled']=len(seen)
    out['rejected_traces']=sum(1 for u in rejected if u.event_path or u.event_parent_id or u.event_id in bus.event_history)
    return out
try:
    r,loop=run(f3, horizon=2000); print(r)
except Hang as e: print('HANG',e)
