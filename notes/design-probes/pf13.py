import asyncio, sys, logging
logging.disable(logging.CRITICAL)
from bubus.helpers import retry
@retry(retries=0, timeout=5, semaphore_limit=1, semaphore_name='s13', semaphore_timeout=10)
async def f(i):
    await asyncio.sleep(0.01); return i
async def main(): return await asyncio.gather(*[f(i) for i in range(3)], return_exceptions=True)
print('loop1', asyncio.run(main()))
print('loop2', asyncio.run(main()))
