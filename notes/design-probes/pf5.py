import asyncio, sys, logging, gc, warnings
sys.path.insert(0,'/tmp/probe'); warnings.simplefilter('ignore'); logging.disable(logging.CRITICAL)
from vloop import *
from bubus import EventBus, BaseEvent
from bubus.helpers import retry
import bubus.helpers as H
T=lambda: asyncio.get_event_loop().time()
class P(BaseEvent): pass
class C(BaseEvent): pass
class U(BaseEvent):
    n:int=0
def attempt(name, fn, **kw):
    kw.setdefault('horizon', 3000.0)
    try:
        r, loop = run(fn, **kw); print(f'[{name}] ->', r, f'(vt={loop.time():.3f})')
    except Hang as e: print(f'[{name}] HANG:', e)
    except Exception as e: print(f'[{name}] EXC:', type(e).__name__, e)
    for b in list(EventBus.all_instances): b._is_running=False
    EventBus.all_instances.clear(); gc.collect()

# F15: stopped bus drained inline by another bus's awaiting handler
async def f15():
    a=EventBus(name='A'); b=EventBus(name='B'); log=[]
    async def hb(e): log.append(('B-handler-enter', e.n, T())); await asyncio.sleep(1)
    async def hp(e):
        c=a.dispatch(C()); await c
    async def hc(e): log.append(('C',T()))
    b.on(U,hb); a.on(P,hp); a.on(C,hc)
    b.dispatch(U(n=1)); b.dispatch(U(n=2)); b.dispatch(U(n=3))
    await asyncio.sleep(0.5)           # U1 mid-flight
    t0=T(); await b.stop(); log.append(('B.stop returned', T()-t0))
    await a.dispatch(P())
    await asyncio.sleep(5)
    return log
attempt('F15 stop then inline drain', f15)

# stop() at various states: time taken
async def stopstates():
    out=[]
    for label,delay,tmo in [('idle',None,None),('midflight',0.5,None),('midflight t=0',0.5,0),('midflight t=0.3',0.5,0.3),('midflight t=10',0.5,10)]:
        b=EventBus(); ent=[]
        async def h(e): ent.append((e.n,T())); await asyncio.sleep(2)
        b.on(U,h)
        if delay is None:
            await b.dispatch(U(n=0)) if False else None
            b.dispatch(U(n=0)); await b.wait_until_idle()
        else:
            for i in range(3): b.dispatch(U(n=i))
            await asyncio.sleep(delay)
        t0=T(); await b.stop(timeout=tmo); dt=T()-t0; n_before=len(ent)
        await asyncio.sleep(10)
        out.append((label, round(dt,3), 'entered_before',n_before,'after',len(ent)-n_before))
    return out
attempt('stop states', stopstates)

# expect cleanup under cancel / raising predicate
async def fexp():
    b=EventBus(); out={}
    async def h(e): return e.n
    b.on(U,h)
    base=sum(len(v) for v in b.handlers.values())
    t=asyncio.create_task(b.expect(U, include=lambda e: e.n==99)); await asyncio.sleep(0.01)
    out['during']=sum(len(v) for v in b.handlers.values())-base
    t.cancel()
    try: await t
    except asyncio.CancelledError: pass
    out['after_cancel']=sum(len(v) for v in b.handlers.values())-base
    def bad(e): raise KeyError('boom')
    t=asyncio.create_task(b.expect(U, include=bad, timeout=1)); await asyncio.sleep(0.01)
    e=await b.dispatch(U(n=1))
    out['event_results']=[(r.status,type(r.error).__name__) for r in e.event_results.values()]
    try: await t
    except Exception as ex: out['raising_pred_outcome']=type(ex).__name__
    out['after_raise']=sum(len(v) for v in b.handlers.values())-base
    # first match order
    t=asyncio.create_task(b.expect('U', include=lambda e:e.n%2==0, exclude=lambda e:e.n==4, timeout=5)); await asyncio.sleep(0.01)
    for n in (3,4,6,8): b.dispatch(U(n=n))
    out['first_match']=(await t).n
    return out
attempt('expect', fexp)

# retry arithmetic
async def fretry():
    calls=[]
    @retry(wait=2, retries=3, timeout=5, backoff_factor=1.5, retry_on=(ValueError,TimeoutError))
    async def f():
        calls.append(T())
        k=len(calls)
        if k==1: raise ValueError('x')
        if k==2: await asyncio.sleep(100)
        if k==3: raise ValueError('y')
        return 'ok'
    r=await f()
    return r, calls
attempt('retry arithmetic', fretry)

async def fretry_cancel():
    calls=[]
    @retry(wait=2, retries=5, timeout=5)
    async def f():
        calls.append(T()); raise ValueError('x')
    t=asyncio.create_task(f()); await asyncio.sleep(3)  # in backoff sleep after 2nd attempt (t=2)
    t.cancel()
    try: await t; res='returned'
    except asyncio.CancelledError: res='cancelled'
    except Exception as e: res=type(e).__name__
    await asyncio.sleep(50)
    return res, calls
attempt('retry cancel', fretry_cancel)

# semaphore leak under cancellation/timeouts
async def fsem():
    H.GLOBAL_RETRY_SEMAPHORES.clear()
    active=[0]; peak=[0]; ran=[]
    @retry(retries=0, timeout=3, semaphore_limit=2, semaphore_name='S', semaphore_lax=False, semaphore_timeout=4)
    async def f(i, d):
        active[0]+=1; peak[0]=max(peak[0],active[0]); ran.append(i)
        try: await asyncio.sleep(d)
        finally: active[0]-=1
        return i
    ts=[asyncio.create_task(f(i,d)) for i,d in enumerate([2,10,2,2,2,2])]   # #1 overruns attempt timeout
    await asyncio.sleep(0.5); ts[3].cancel()   # cancelled while waiting
    await asyncio.sleep(0.6); ts[0].cancel()   # cancelled while running
    res=await asyncio.gather(*ts, return_exceptions=True)
    sem=H.GLOBAL_RETRY_SEMAPHORES['S']
    return [type(r).__name__ if isinstance(r,BaseException) else r for r in res], 'peak',peak[0],'value_after',sem._value, 'ran',ran
attempt('semaphore', fsem)
