"""Scratch prototype: virtual-time asyncio loop (design-time feasibility probe only)."""
import asyncio, heapq, random

class Hang(Exception): pass

class VLoop(asyncio.SelectorEventLoop):
    def __init__(self, seed=0, jitter=0.0, horizon=10_000.0, max_steps=2_000_000):
        super().__init__()
        self._vt = 0.0
        self.inflight = 0          # real-thread jobs outstanding (virtual time frozen while >0)
        self.rng = random.Random(seed)
        self.jitter = jitter
        self.horizon = horizon
        self.steps = 0
        self.max_steps = max_steps
        self.deadlocked = False
        self.time_jumps = 0
    def time(self):
        return self._vt
    def call_at(self, when, callback, *args, context=None):
        if self.jitter:
            when = when + self.rng.random() * self.jitter
        return super().call_at(when, callback, *args, context=context)
    def _run_once(self):
        self.steps += 1
        if self.steps > self.max_steps:
            raise Hang(f'step budget exhausted at vt={self._vt}')
        sched = self._scheduled
        while sched and sched[0]._cancelled:
            h = heapq.heappop(sched); h._scheduled = False
            self._timer_cancelled_count -= 1
        if not self._ready and not self._stopping and self.inflight == 0:
            if sched:
                nxt = sched[0]._when
                if nxt > self._vt:
                    self._vt = nxt; self.time_jumps += 1
                if self._vt > self.horizon:
                    raise Hang(f'virtual horizon {self.horizon} passed')
            else:
                self.deadlocked = True
                raise Hang('no runnable task and no timer: deadlock')
        super()._run_once()

def run(coro_fn, **kw):
    loop = VLoop(**kw)
    asyncio.set_event_loop(loop)
    try:
        return loop.run_until_complete(coro_fn()), loop
    finally:
        asyncio.set_event_loop(None)
