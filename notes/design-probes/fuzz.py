"""Throwaway design-time prototype: random scenarios + trace oracles (NOT the framework)."""
import asyncio, sys, logging, gc, warnings, random, json, collections, contextvars
sys.path.insert(0, '/tmp/probe'); warnings.simplefilter('ignore'); logging.disable(logging.CRITICAL)
from vloop import *
from bubus import EventBus, BaseEvent
import bubus.service as S

class E0(BaseEvent): tag: int = 0
class E1(BaseEvent): tag: int = 0
class E2(BaseEvent): tag: int = 0
class E3(BaseEvent): tag: int = 0
TYPES = [E0, E1, E2, E3]
DELAYS = [0, 0, 0.001, 0.05, 0.1, 0.1, 0.15, 0.3, 1.0]

inline_ctx = contextvars.ContextVar('inline_ctx', default=None)

class Trace:
    def __init__(self): self.r = []; self.n = 0
    def add(self, kind, **kw):
        self.n += 1; kw.update(seq=self.n, vt=asyncio.get_event_loop().time(), kind=kind); self.r.append(kw); return self.n

def gen(rng):
    nb = rng.choice([1, 1, 2, 2, 3])
    sc = {'buses': [{'name': f'B{i}', 'par': rng.random() < PAR, 'lazy': rng.random() < 0.3} for i in range(nb)], 'fwd': [], 'handlers': [], 'main': []}
    if nb > 1 and rng.random() < FWD:
        for _ in range(rng.randint(1, nb)):
            a, b = rng.randrange(nb), rng.randrange(nb)
            sc['fwd'].append((a, b))
    for b in range(nb):
        for t in range(4):
            for k in range(rng.choice([0, 1, 1, 2])):
                prog = []
                for _ in range(rng.randint(0, 3)):
                    x = rng.random()
                    if x < 0.35: prog.append(('sleep', rng.choice(DELAYS)))
                    elif x < 0.85 and t < 3:
                        prog.append(('disp', rng.randint(t + 1, 3), rng.randrange(nb), rng.choice(['fire', 'await', 'await', 'later']), rng.choice(DELAYS)))
                    elif x < 0.92: prog.append(('raise',))
                    else: prog.append(('bus',))
                wild = rng.random() < 0.1
                if wild: prog = [op for op in prog if op[0] != 'disp']
                sc['handlers'].append({'bus': b, 'type': t, 'sync': rng.random() < 0.2, 'wild': wild, 'prog': prog})
    for _ in range(rng.randint(1, 5)):
        sc['main'].append(('disp', rng.randint(0, 2), rng.randrange(nb), rng.choice(['fire', 'await']), rng.choice(DELAYS)))
    return sc

async def run_scenario(sc, tr):
    tagc = [0]
    buses = {}
    class TB(EventBus):
        def dispatch(self, event):
            caller = cur.get()
            s = tr.add('enq_call', bus=self.name, ev=event.event_id, caller=caller)
            try:
                r = super().dispatch(event)
            except Exception as ex:
                tr.add('enq_raise', bus=self.name, ev=event.event_id, exc=type(ex).__name__); raise
            tr.add('enq_ok', bus=self.name, ev=event.event_id, caller=caller); return r
        async def process_event(self, event, timeout=None):
            tr.add('proc_begin', bus=self.name, ev=event.event_id, inline=inline_ctx.get())
            try: return await super().process_event(event, timeout=timeout)
            finally: tr.add('proc_end', bus=self.name, ev=event.event_id)
        async def _get_next_event(self, wait_for_timeout=0.1):
            r = await super()._get_next_event(wait_for_timeout)
            if r is not None: tr.add('took', bus=self.name, ev=r.event_id)
            return r
    cur = contextvars.ContextVar('cur', default=None)
    def getbus(i):
        if i not in buses:
            d = sc['buses'][i]; buses[i] = TB(name=d['name'], parallel_handlers=d['par'], max_history_size=None)
            install(i)
        return buses[i]
    events = {}
    def mk(t):
        tagc[0] += 1; e = TYPES[t](tag=tagc[0], event_timeout=None); events[e.event_id] = e; tr.add('mk', ev=e.event_id, t=t); return e
    def make_handler(hi, h):
        bi = h['bus']
        async def body(event, inv):
            pend = []
            for op in h['prog']:
                if op[0] == 'sleep':
                    if h['sync']: continue
                    await asyncio.sleep(op[1])
                elif op[0] == 'raise': raise ValueError(f'h{hi}')
                elif op[0] == 'bus':
                    tr.add('event_bus', inv=inv, got=event.event_bus.name, want=sc['buses'][bi]['name'])
                elif op[0] == 'disp':
                    _, t, tb, mode, d = op
                    c = mk(t)
                    tr.add('hdisp', inv=inv, ev=c.event_id, parent=event.event_id, bus=sc['buses'][tb]['name'])
                    try: getbus(tb).dispatch(c)
                    except Exception: continue
                    if h['sync'] or mode == 'fire': continue
                    if mode == 'later': pend.append(c); continue
                    if d: await asyncio.sleep(d)
                    await do_await(c, inv)
            for c in pend: await do_await(c, inv)
            return hi
        async def do_await(c, inv):
            s = tr.add('aw_begin', inv=inv, ev=c.event_id)
            tok = inline_ctx.set(inv)
            try: await c
            finally: inline_ctx.reset(tok)
            tr.add('aw_end', inv=inv, ev=c.event_id, complete=is_complete(c), sig=c.event_completed_signal.is_set())
        if h['sync']:
            def handler(event):
                inv = tr.add('h_enter', h=hi, bus=sc['buses'][bi]['name'], ev=event.event_id, oid=id(event), via=inline_ctx.get())
                tok = cur.set(inv)
                try:
                    co = body(event, inv)
                    try: co.send(None)
                    except StopIteration as si: return si.value
                    raise AssertionError('sync handler suspended')
                finally:
                    cur.reset(tok); tr.add('h_exit', inv=inv)
        else:
            async def handler(event):
                inv = tr.add('h_enter', h=hi, bus=sc['buses'][bi]['name'], ev=event.event_id, oid=id(event), via=inline_ctx.get())
                tok = cur.set(inv); tok2 = inline_ctx.set(None)
                try: return await body(event, inv)
                finally:
                    cur.reset(tok); inline_ctx.reset(tok2); tr.add('h_exit', inv=inv)
        handler.__name__ = f'h{hi}'
        return handler
    def install(i):
        b = buses[i]
        for hi, h in enumerate(sc['handlers']):
            if h['bus'] == i: b.on('*' if h['wild'] else TYPES[h['type']], make_handler(hi, h))
        for (a, d) in sc['fwd']:
            if a == i: b.on('*', getbus(d).dispatch)
    def is_complete(e, seen=None):
        return e.event_completed_signal.is_set() and all(r.status in ('completed', 'error') for r in e.event_results.values())
    for i, d in enumerate(sc['buses']):
        if not d['lazy']: getbus(i)
    roots = []
    for op in sc['main']:
        _, t, b, mode, d = op
        e = mk(t); tr.add('mdisp', ev=e.event_id, bus=sc['buses'][b]['name'])
        getbus(b).dispatch(e); roots.append(e)
        if mode == 'await':
            tr.add('maw_begin', ev=e.event_id); r = await e; tr.add('maw_end', ev=e.event_id, same=r is e)
        if d: await asyncio.sleep(d)
    for e in roots:
        tr.add('maw_begin', ev=e.event_id); await e; tr.add('maw_end', ev=e.event_id)
    for b in list(buses.values()):
        tr.add('idle_call', bus=b.name); await b.wait_until_idle(); tr.add('idle_ret', bus=b.name, q=b.event_queue.qsize(), pend=len(b.events_pending), started=len(b.events_started))
    # second round so every bus is idle together
    for b in list(buses.values()): await b.wait_until_idle()
    tr.add('final')
    final = {eid: {'parent': e.event_parent_id, 'path': list(e.event_path), 'sig': e.event_completed_signal.is_set(),
                   'results': [(r.eventbus_name, r.handler_name, r.status, [c.event_id for c in r.event_children]) for r in e.event_results.values()]} for eid, e in events.items()}
    for b in list(buses.values()): await b.stop()
    return final


def oracle(sc, tr, final):
    V = []
    R = tr.r
    def v(prop, mech, **kw): V.append(dict(prop=prop, mech=mech, **kw))
    inv = {r['seq']: r for r in R if r['kind'] == 'h_enter'}
    exit_seq = {r['inv']: r['seq'] for r in R if r['kind'] == 'h_exit'}
    evtype = {r['ev']: r['t'] for r in R if r['kind'] == 'mk'}
    short = {ev: f"e{i}" for i, ev in enumerate(evtype)}
    bidx = {b['name']: i for i, b in enumerate(sc['buses'])}
    # ---------- C01
    accepted = collections.OrderedDict()
    for r in R:
        if r['kind'] == 'enq_ok': accepted.setdefault((r['ev'], r['bus']), r['seq'])
    entered = collections.Counter((r['ev'], r['bus'], r['h']) for r in R if r['kind'] == 'h_enter')
    for (ev, bus) in accepted:
        for hi, h in enumerate(sc['handlers']):
            if h['bus'] == bidx[bus] and (h['wild'] or h['type'] == evtype[ev]):
                n = entered.get((ev, bus, hi), 0)
                if n != 1: v('C01', 'count', ev=short[ev], bus=bus, h=hi, n=n)
    for (ev, bus, hi), n in entered.items():
        if (ev, bus) not in accepted: v('C01', 'unaccepted-run', ev=short[ev], bus=bus, h=hi)
    # ---------- harness lineage
    parent_of = {}; disp_by = {}
    for r in R:
        if r['kind'] == 'hdisp': parent_of[r['ev']] = r['parent']; disp_by[r['ev']] = r['inv']
    def descendants(ev):
        out = set(); st = [ev]
        while st:
            x = st.pop()
            for c, p in parent_of.items():
                if p == x and c not in out: out.add(c); st.append(c)
        return out
    # ---------- C02 FIFO per bus
    enq = collections.defaultdict(list)
    for r in R:
        if r['kind'] == 'enq_ok': enq[r['bus']].append((r['seq'], r['ev']))
    pb = collections.defaultdict(dict)
    for r in R:
        if r['kind'] == 'proc_begin': pb[r['bus']].setdefault(r['ev'], r)
    aw = [r for r in R if r['kind'] == 'aw_begin']
    aw_end = {}
    for r in R:
        if r['kind'] == 'aw_end': aw_end[(r['inv'], r['ev'])] = r
    for bus, lst in enq.items():
        seen = set(); order = []
        for s, ev in lst:
            if ev not in seen: seen.add(ev); order.append((s, ev))
        for i in range(len(order)):
            for j in range(i + 1, len(order)):
                e1, e2 = order[i][1], order[j][1]
                if e1 in pb[bus] and e2 in pb[bus] and pb[bus][e2]['seq'] < pb[bus][e1]['seq']:
                    # permitted if e2 is awaited (or desc of awaited) by a handler at that time
                    p2 = pb[bus][e2]
                    ok = False
                    for a in aw:
                        ae = aw_end.get((a['inv'], a['ev']))
                        if a['seq'] < p2['seq'] and (ae is None or ae['seq'] > p2['seq']):
                            if e2 == a['ev'] or e2 in descendants(a['ev']): ok = True
                    took1 = [r for r in R if r['kind'] == 'took' and r['bus'] == bus and r['ev'] == e1 and r['seq'] < p2['seq']]
                    if not ok: v('C02', 'inversion', bus=bus, e1=short[e1], e2=short[e2], e1_in_runloop_hand=bool(took1), e2_inline=p2['inline'] is not None)
    # ---------- C06 mutual exclusion
    running = {}
    awaiting = collections.Counter()
    for r in R:
        k = r['kind']
        if k == 'h_enter':
            for i2, r2 in running.items():
                same = (r2['ev'] == r['ev'] and r2['bus'] == r['bus'] and sc['buses'][bidx[r['bus']]]['par'])
                sib_aw = sc['buses'][bidx[r2['bus']]]['par'] and any(awaiting[i3] for i3, r3 in running.items() if r3['ev'] == r2['ev'] and r3['bus'] == r2['bus'])
                if not (awaiting[i2] or same or sib_aw):
                    def chain(i):
                        out = [i]
                        while inv[out[-1]]['via'] is not None: out.append(inv[out[-1]]['via'])
                        return out
                    c1, c2 = chain(r['via']) if r['via'] is not None else [], chain(i2)
                    f16 = any(inv[x]['ev'] == inv[y]['ev'] and inv[x]['bus'] == inv[y]['bus'] and x != y and sc['buses'][bidx[inv[x]['bus']]]['par'] for x in c1 for y in c2)
                    v('C06', 'overlap-F16' if f16 else 'overlap', new=(r['bus'], short[r['ev']], r['h']), other=(r2['bus'], short[r2['ev']], r2['h']), vt=r['vt'])
            running[r['seq']] = r
        elif k == 'h_exit': running.pop(r['inv'], None)
        elif k == 'aw_begin': awaiting[r['inv']] += 1
        elif k == 'aw_end': awaiting[r['inv']] -= 1
    # ---------- C04 in-handler await returns complete ; C05 queue jump
    for a in aw:
        ae = aw_end.get((a['inv'], a['ev']))
        if ae is None: v('C04', 'no-return', ev=short[a['ev']]); continue
        if not (ae['complete'] and ae['sig']):
            D0 = descendants(a['ev']) | {a['ev']}
            held = False
            for x in D0:
                for r in R:
                    if r['seq'] < ae['seq'] and r.get('ev') == x and (r['kind'] == 'took' or (r['kind'] == 'proc_begin' and r['inline'] != a['inv'])):
                        pe = [q for q in R if q['kind'] == 'proc_end' and q['ev'] == x and q['bus'] == r['bus'] and q['seq'] > r['seq']]
                        if not pe or pe[0]['seq'] > ae['seq']: held = True
            fw = any(len(final[x]['path']) > 1 for x in D0)
            v('C04', 'incomplete', ev=short[a['ev']], took_by_runloop=held, forwarded=fw)
        D = descendants(a['ev']) | {a['ev']}
        for r in R:
            if r['kind'] == 'h_enter' and a['seq'] < r['seq'] < ae['seq'] and r['ev'] not in D:
                me = inv[a['inv']]
                if r['ev'] == me['ev'] and r['bus'] == me['bus'] and sc['buses'][bidx[me['bus']]]['par']: continue
                x = r['via']; chain = False
                while x is not None:
                    if x == a['inv']: chain = True; break
                    x = inv[x]['via']
                v('C05', 'unrelated-during-await', via_this_await=chain, ev=short[r['ev']])
    # ---------- C03 external await
    hexit_by_ev = collections.defaultdict(list)
    for r in R:
        if r['kind'] == 'h_enter': hexit_by_ev[r['ev']].append((r['seq'], exit_seq.get(r['seq'])))
    for r in R:
        if r['kind'] == 'maw_end':
            D0 = descendants(r['ev']) | {r['ev']}
            for x in D0:
                for (b_ev, b) in [k for k in accepted if k[0] == x]:
                    if accepted[(b_ev, b)] > r['seq']: continue
                    for hi, h in enumerate(sc['handlers']):
                        if h['bus'] == bidx[b] and (h['wild'] or h['type'] == evtype[x]):
                            done = [1 for q in R if q['kind'] == 'h_enter' and q['ev'] == x and q['bus'] == b and q['h'] == hi and exit_seq.get(q['seq'], 1e18) < r['seq']]
                            if not done:
                                first_bus = final[x]['path'][0] if final[x]['path'] else None
                                v('C03', 'returned-early', ev=short[x], root=(x == r['ev']), forwarded=(b != first_bus))
    # ---------- C09 lineage
    for ev, f in final.items():
        want = parent_of.get(ev)
        if f['parent'] != want: v('C09', 'parent', ev=short[ev], got=short.get(f['parent'], f['parent']), want=short.get(want, want))
    child_lists = collections.defaultdict(list)
    for ev, f in final.items():
        for (bn, hn, st, ch) in f['results']:
            for c in ch: child_lists[c].append((ev, bn, hn))
    for ev in final:
        if ev in disp_by:
            accepted_any = any(e == ev for (e, b) in accepted)
            iv = inv[disp_by[ev]]
            want = [(iv['ev'], iv['bus'], f"h{iv['h']}")] if accepted_any else []
            got = [(p, bn, hn.split('.')[-1]) for (p, bn, hn) in child_lists.get(ev, [])]
            if got != want: v('C09', 'children', ev=short[ev], got=[(short[p], b, h) for p, b, h in got], want=[(short[p], b, h) for p, b, h in want])
        elif child_lists.get(ev): v('C09', 'root-has-parent-entry', ev=short[ev])
    for r in R:
        if r['kind'] == 'event_bus' and r['got'] != r['want']: v('C09', 'event_bus', got=r['got'], want=r['want'])
    # ---------- C07 path
    for ev, f in final.items():
        if len(set(f['path'])) != len(f['path']): v('C07', 'dup-path', ev=short[ev], path=f['path'])
        procs = collections.Counter(r['bus'] for r in R if r['kind'] == 'proc_begin' and r['ev'] == ev)
        for b, n in procs.items():
            if n != 1: v('C07', 'proc-count', ev=short[ev], bus=b, n=n)
        if set(procs) != set(f['path']): v('C07', 'path-vs-proc', ev=short[ev], path=f['path'], procs=dict(procs))
    # ---------- C15 idle soundness
    for r in R:
        if r['kind'] == 'idle_ret' and (r['q'] or r['pend'] or r['started']): v('C15', 'not-idle', **{k: r[k] for k in ('bus', 'q', 'pend', 'started')})
    # all complete at final
    for ev, f in final.items():
        if not f['sig']: v('C03', 'never-complete', ev=short[ev])
    return V

if __name__ == '__main__':
    import time
    n = int(sys.argv[1]); seed0 = int(sys.argv[2]); FWD = float(sys.argv[3]) if len(sys.argv) > 3 else 0.0; PAR = float(sys.argv[4]) if len(sys.argv) > 4 else 0.0
    stats = collections.Counter(); examples = {}
    t0 = time.time()
    for i in range(n):
        rng = random.Random(seed0 + i); sc = gen(rng); tr = Trace()
        try:
            final, loop = run(lambda: run_scenario(sc, tr), seed=seed0 + i, jitter=1e-7 if i % 2 else 0.0, horizon=200.0, max_steps=400000)
        except Hang as e:
            stats['HANG'] += 1; examples.setdefault('HANG', (seed0 + i, str(e))); final = None
        except Exception as e:
            stats['EXC ' + type(e).__name__] += 1; examples.setdefault('EXC ' + type(e).__name__, (seed0 + i, repr(e))); final = None
        if final is not None:
            stats['ok-runs'] += 1
            for x in oracle(sc, tr, final):
                key = x['prop'] + ':' + x['mech'] + ':' + ','.join(f'{k}={x[k]}' for k in ('took_by_runloop', 'forwarded', 'via_this_await', 'e1_in_runloop_hand', 'e2_inline', 'root') if k in x)
                stats[key] += 1; examples.setdefault(key, (seed0 + i, x))
        for b in list(EventBus.all_instances): b._is_running = False
        EventBus.all_instances.clear(); asyncio.set_event_loop(None)
        try: loop.close()
        except Exception: pass
        if i % 50 == 0: gc.collect()
    print('wall', round(time.time() - t0, 1))
    for k, c in sorted(stats.items()): print(f'{c:6d}  {k}   first: {examples.get(k)}')
