import asyncio, sys, logging, warnings, tempfile, os, time, json
sys.path.insert(0,'/tmp/probe'); warnings.simplefilter('ignore'); logging.disable(logging.CRITICAL)
from vloop import *
import anyio, anyio.to_thread
from bubus import EventBus, BaseEvent
# thread-awareness: count worker-thread jobs in flight so the virtual clock freezes while real I/O runs
_orig = anyio.to_thread.run_sync
async def counted(*a, **k):
    loop = asyncio.get_running_loop(); loop.inflight += 1
    try: return await _orig(*a, **k)
    finally: loop.inflight -= 1
anyio.to_thread.run_sync = counted
class U(BaseEvent):
    n:int=0
    s:str=''
async def main():
    d=tempfile.mkdtemp(); p=os.path.join(d,'wal.jsonl')
    bus=EventBus(name='W', wal_path=p)
    async def h(e): await asyncio.sleep(1.0); return e.n
    bus.on(U,h)
    for i in range(20): bus.dispatch(U(n=i, s='ünï©ode \U0001F600'))
    await bus.wait_until_idle()
    lines=open(p,encoding='utf-8').read().splitlines()
    ok=[json.loads(l)['n'] for l in lines]
    # fault: /dev/full
    bus2=EventBus(name='W2', wal_path='/dev/full')
    bus2.on(U,h); e=await bus2.dispatch(U(n=99)); 
    await bus.stop(); await bus2.stop()
    return ok, e.event_status
t=time.time(); (r,loop)=run(main, horizon=500); print(r, 'vt',loop.time(),'wall',round(time.time()-t,3),'steps',loop.steps)
