import sys
exec(open('fuzz.py').read().split("if __name__ == '__main__':")[0])
FWD=float(sys.argv[2]) if len(sys.argv)>2 else 0.0; PAR=float(sys.argv[3]) if len(sys.argv)>3 else 0.0
seed=int(sys.argv[1])
rng = random.Random(seed); sc = gen(rng); tr = Trace()
final, loop = run(lambda: run_scenario(sc, tr), seed=seed, jitter=1e-7 if (seed-1000)%2 else 0.0, horizon=200.0)
print(json.dumps(sc['buses'])); print('fwd',sc['fwd'])
for i,h in enumerate(sc['handlers']): print(' h',i,h)
print(' main',sc['main'])
evs={r['ev']:f"e{i}" for i,r in enumerate([r for r in tr.r if r['kind']=='mk'])}
for r in tr.r:
    d={k:v for k,v in r.items() if k not in('seq','vt','kind','oid')}
    for k in ('ev','parent'):
        if k in d: d[k]=evs.get(d[k],d[k])
    print(f"{r['seq']:4d} {r['vt']:8.4f} {r['kind']:10s} {d}")
for x in oracle(sc,tr,final): print(x)
