import asyncio, sys, logging, gc, warnings, random
sys.path.insert(0,'/tmp/probe'); warnings.simplefilter('ignore'); logging.disable(logging.CRITICAL)
from vloop import *
from bubus import EventBus, BaseEvent
T=lambda: asyncio.get_event_loop().time()
class A(BaseEvent):
    n:int=0
class B(BaseEvent):
    n:int=0
def cleanup():
    for b in list(EventBus.all_instances): b._is_running=False
    EventBus.all_instances.clear(); gc.collect()
def scn(seed):
    rng=random.Random(seed)
    async def main():
        bus=EventBus(name='X'); proc=[]   # processing order (first handler = recorder registered first for each type)
        def rec(e): proc.append((type(e).__name__, e.n, T(), len(proc)))
        async def slow(e): await asyncio.sleep(rng.choice([0,0.05,0.2]))
        bus.on(A,rec); bus.on(B,rec); bus.on(A,slow)
        base={k:len(v) for k,v in bus.handlers.items()}
        exps=[]
        async def do_expect(i, at, typ, mod, excl, tmo, cancel_at, bad):
            await asyncio.sleep(at)
            inc=(lambda e: e.n%mod==0) if not bad else (lambda e: (_ for _ in ()).throw(KeyError('x')))
            start_idx=len(proc); t0=T()
            task=asyncio.ensure_future(bus.expect(typ if rng.random()<0.5 else typ.__name__, include=inc, exclude=lambda e: e.n==excl, timeout=tmo))
            if cancel_at is not None:
                await asyncio.sleep(cancel_at); task.cancel()
            try: r=await task; out=('match', type(r).__name__, r.n)
            except asyncio.CancelledError: out=('cancelled',)
            except TimeoutError: out=('timeout',)
            exps.append(dict(i=i, typ=typ.__name__, mod=mod, excl=excl, tmo=tmo, t0=t0, start_idx=start_idx, end=T(), out=out, bad=bad, cancel=cancel_at))
        tasks=[asyncio.create_task(do_expect(i, rng.choice([0,0.1,0.33,0.7]), rng.choice([A,B]), rng.choice([1,2,3]), rng.randrange(8), rng.choice([0.3,1.0,5.0]), rng.choice([None,None,0.2,0.6]), rng.random()<0.15)) for i in range(4)]
        async def producer():
            for k in range(14):
                await asyncio.sleep(rng.choice([0,0.05,0.11,0.3]))
                bus.dispatch(rng.choice([A,B])(n=rng.randrange(8)))
        await asyncio.gather(producer(), *tasks)
        await bus.wait_until_idle()
        left={k:len(v)-base.get(k,0) for k,v in bus.handlers.items() if len(v)-base.get(k,0)}
        await bus.stop()
        return proc, exps, left
    return main
bad=0; n=0; outcomes={}
for seed in range(400):
    try: (proc,exps,left),loop=run(scn(seed), horizon=500)
    except Hang as e: print('HANG',seed,e); cleanup(); continue
    cleanup()
    if left: bad+=1; print('leftover handlers', seed, left)
    for x in exps:
        n+=1; outcomes[x['out'][0]]=outcomes.get(x['out'][0],0)+1
        if x['bad'] or x['cancel'] is not None and x['out'][0]=='cancelled': continue
        deadline=x['t0']+x['tmo']
        cands=[p for p in proc if p[3]>=x['start_idx'] and p[0]==x['typ'] and p[1]%x['mod']==0 and p[1]!=x['excl']]
        first=cands[0] if cands else None
        SPAN=0.2+1e-6   # longest possible processing time of one A event in this scenario (slow handler)
        if first and first[2]+SPAN < deadline-1e-6 and (x['cancel'] is None or first[2]+SPAN < x['t0']+x['cancel']-1e-6): want=('match',x['typ'],first[1])
        elif first and first[2] <= deadline+1e-6: want=None   # processing interval may straddle the deadline: either outcome
        else: want=('timeout',) if x['cancel'] is None or x['tmo']<x['cancel'] else None
        if want is not None and x['out']!=want:
            bad+=1
            if bad<5: print('MISMATCH seed',seed,x,'want',want,'first',first)
print('C18 expects checked',n,'bad',bad, outcomes)
