import asyncio, sys, logging, gc, warnings
sys.path.insert(0,'/tmp/probe')
warnings.simplefilter('ignore')
logging.disable(logging.CRITICAL)
from vloop import *
from bubus import EventBus, BaseEvent
from bubus import service
T=lambda: asyncio.get_event_loop().time()

class P(BaseEvent): pass
class C(BaseEvent): pass
class U(BaseEvent):
    n:int=0

def attempt(name, fn, **kw):
    kw.setdefault('horizon', 2000.0)
    try:
        r, loop = run(fn, **kw)
        print(f'[{name}] ->', r, f'(vt={loop.time():.2f})')
    except Hang as e:
        print(f'[{name}] HANG:', e)
    except Exception as e:
        print(f'[{name}] EXC:', type(e).__name__, e)
    for b in list(EventBus.all_instances):
        b._is_running=False
    EventBus.all_instances.clear(); gc.collect()

# F0: queue jump
async def f0():
    bus=EventBus(name='A'); log=[]
    async def hp(e):
        log.append('P-enter')
        c=bus.dispatch(C())
        log.append('await-begin'); await c; log.append('await-end')
    async def hc(e): log.append('C')
    async def hu(e): log.append(f'U{e.n}')
    bus.on(P,hp); bus.on(C,hc); bus.on(U,hu)
    p=bus.dispatch(P()); bus.dispatch(U(n=1)); bus.dispatch(U(n=2))
    await p; await bus.wait_until_idle(); await bus.stop()
    return log
attempt('F0 queue-jump', f0)

# F1: yield between dispatch and await with 2 buses
async def f1():
    a=EventBus(name='A'); b=EventBus(name='B'); out={}
    async def hp(e):
        c=b.dispatch(C())
        await asyncio.sleep(0.01)
        await c
        out['child_status_at_return']=c.event_status; out['sig']=c.event_completed_signal.is_set()
    async def hc(e):
        await asyncio.sleep(0.01); return 1
    a.on(P,hp); b.on(C,hc)
    # make sure b's runloop is already running & polling
    b.dispatch(U()); await b.wait_until_idle()
    p=a.dispatch(P()); await p
    await a.wait_until_idle(); await b.wait_until_idle(); await a.stop(); await b.stop()
    return out
attempt('F1 yield-before-await', f1)

# F2: self recursion depth>2
class R(BaseEvent):
    d:int=0
async def f2():
    bus=EventBus(name='A'); seen=[]
    async def hr(e):
        seen.append(e.d)
        if e.d<4: bus.dispatch(R(d=e.d+1))
    bus.on(R,hr)
    r=bus.dispatch(R())
    await asyncio.wait_for(r, 500)
    await bus.wait_until_idle(); await bus.stop()
    return seen
attempt('F2 recursion', f2)

# F3: rejection inside handler
async def f3():
    bus=EventBus(name='A'); out={'rej':0,'acc':0}
    async def hp(e):
        for i in range(120):
            try: bus.dispatch(U(n=i)); out['acc']+=1
            except Exception as ex: out['rej']+=1; out['ex']=type(ex).__name__
    async def hu(e): pass
    bus.on(P,hp); bus.on(U,hu)
    p=bus.dispatch(P())
    try:
        await asyncio.wait_for(p, 500); out['parent']='completed'
    except TimeoutError: out['parent']='HUNG'; out['nchildren']=len(p.event_children)
    return out
attempt('F3 reject-in-handler', f3)

# F4: forward completion regression
async def f4():
    a=EventBus(name='A'); b=EventBus(name='B'); obs=[]
    async def hb(e): await asyncio.sleep(1); return 'b'
    a.on('*', b.dispatch); b.on(U,hb)
    e=a.dispatch(U()); await e
    obs.append((T(), e.event_status, sorted(r.status for r in e.event_results.values())))
    for _ in range(3):
        await asyncio.sleep(0.4); obs.append((T(), e.event_status, sorted(r.status for r in e.event_results.values())))
    await a.stop(); await b.stop()
    return obs, e.event_parent_id==e.event_id
attempt('F4/F8 forward completion + self-parent', f4)

# F5: timeout during inline processing of other event
async def f5():
    bus=EventBus(name='A'); out={}
    class PT(BaseEvent):
        event_timeout: float|None = 1.0
    async def hp(e):
        c=bus.dispatch(C()); await c
    async def hu(e): await asyncio.sleep(5)
    async def hc(e): return 1
    bus.on(PT,hp); bus.on(U,hu); bus.on(C,hc)
    p=bus.dispatch(PT()); u=bus.dispatch(U(event_timeout=None))
    await p
    out['p']=[ (r.status, type(r.error).__name__) for r in p.event_results.values()]
    try:
        await asyncio.wait_for(bus.wait_until_idle(), 500); out['idle']='ok'
    except TimeoutError: out['idle']='HUNG'
    out['u']=u.event_status, [ (r.status, type(r.error).__name__) for r in u.event_results.values()]
    return out
attempt('F5 timeout-inline', f5)

# F6: bus first used inside handler
async def f6():
    a=EventBus(name='A'); b=EventBus(name='B'); iv=[]
    async def hp(e):
        b.dispatch(U(n=1))   # first use of b inside a handler
    async def hb(e):
        iv.append(('B-enter',e.n,T())); await asyncio.sleep(1); iv.append(('B-exit',e.n,T()))
    async def ha(e):
        iv.append(('A-enter',e.n,T())); await asyncio.sleep(1); iv.append(('A-exit',e.n,T()))
    a.on(P,hp); b.on(U,hb); a.on(U,ha)
    await a.dispatch(P())
    await a.wait_until_idle(); await b.wait_until_idle()
    a.dispatch(U(n=10)); b.dispatch(U(n=20))
    await a.wait_until_idle(); await b.wait_until_idle()
    await a.stop(); await b.stop()
    return iv
attempt('F6 lock-exempt bus', f6)

# F7: asyncio.run-like exit with bus running
async def f7():
    bus=EventBus(name='A')
    bus.on(U, lambda e: None) if False else None
    async def hu(e): pass
    bus.on(U,hu)
    await bus.dispatch(U())
    t=bus._runloop_task
    t.cancel()
    done,pend=await asyncio.wait({t}, timeout=50)
    return 'terminated' if done else 'STILL RUNNING after cancel+50s'
attempt('F7 cancel runloop', f7)
