import asyncio, sys, logging, gc, warnings, itertools
sys.path.insert(0,'/tmp/probe'); warnings.simplefilter('ignore'); logging.disable(logging.CRITICAL)
from vloop import *
from bubus import EventBus, BaseEvent
from bubus.helpers import retry
T=lambda: asyncio.get_event_loop().time()
class U(BaseEvent):
    n:int=0
class C(BaseEvent): pass
def cleanup():
    for b in list(EventBus.all_instances): b._is_running=False
    EventBus.all_instances.clear(); gc.collect()

# ---------- C16: stop at every instant
def stop_scn(t_stop, tmo):
    async def main():
        a=EventBus(name='A'); b=EventBus(name='B'); log=[]
        async def h1(e): log.append(('enter','A',T())); await asyncio.sleep(0.3); c=a.dispatch(C()); await c; await asyncio.sleep(0.2)
        async def h2(e): log.append(('enter','A',T())); await asyncio.sleep(0.25)
        def h3(e): log.append(('enter','A',T()))
        async def hc(e): log.append(('enter','A',T())); await asyncio.sleep(0.1)
        async def hb(e): log.append(('enter','B',T())); c=b.dispatch(C()); await c     # B handler drains all queues incl. A's
        async def hbc(e): await asyncio.sleep(0.05)
        a.on(U,h1); a.on(U,h2); a.on(U,h3); a.on(C,hc); b.on(U,hb); b.on(C,hbc)
        for i in range(3): a.dispatch(U(n=i))
        async def btraffic():
            for i in range(12):
                await asyncio.sleep(0.17); b.dispatch(U(n=100+i))
        bt=asyncio.create_task(btraffic())
        await asyncio.sleep(t_stop)
        t0=T(); await a.stop(timeout=tmo); dt=T()-t0; ts=T()
        await bt; await asyncio.sleep(3)
        late=[x for x in log if x[1]=='A' and x[2]>ts+1e-9]
        await b.stop()
        return dt, late
    return main
bad=[]; n=0
for tmo in (None, 0, 0.2):
    for k in range(0, 60):
        t=k*0.05+0.001
        try:
            (dt,late),loop=run(stop_scn(t,tmo), horizon=500)
            n+=1
            bound=(tmo or 0)+0.1+1e-6
            if late or dt>bound: bad.append((tmo,t,round(dt,3),late[:2]))
        except Hang as e: bad.append((tmo,t,'HANG',str(e)))
        cleanup()
print('C16 stop enumeration runs',n,'bad',len(bad), bad[:6])

# ---------- C16: asyncio.run-style teardown at every instant
def run_and_exit(t_exit):
    async def main():
        a=EventBus(name='A')
        async def h(e): await asyncio.sleep(0.3)
        a.on(U,h)
        for i in range(3): a.dispatch(U(n=i))
        await asyncio.sleep(t_exit)
        return 'main-returned'
    return main
bad=[]
for k in range(0,30):
    loop=VLoop(horizon=200); 
    try:
        with asyncio.Runner(loop_factory=lambda: loop) as r:
            r.run(run_and_exit(k*0.05+0.001)())
            t_ret=loop.time()
        if loop.time()-t_ret>1.0: bad.append((k, loop.time()-t_ret))
    except Hang as e: bad.append((k,'HANG',str(e)))
    cleanup()
print('C16 runner teardown bad', bad[:5])

# ---------- C19 exhaustive outcome sequences vs reference timetable
class Listed(Exception): pass
class Unlisted(Exception): pass
def ref(seq, retries, wait, bf, timeout, retry_on):
    t=0.0; calls=[]
    for k in range(retries+1):
        calls.append(t); o=seq[k] if k<len(seq) else 'ok'
        if o=='ok': return calls, ('ret', k)
        if o=='over': t+=timeout; exc=TimeoutError
        else: exc=Listed if o=='L' else Unlisted
        if retry_on is not None and not issubclass(exc, retry_on): return calls, ('raise', exc.__name__)
        if k<retries: t+=wait*bf**k
        else: return calls, ('raise', exc.__name__)
mism=0; total=0
async def drive(seq, retries, wait, bf, timeout, retry_on):
    calls=[]
    @retry(wait=wait, retries=retries, timeout=timeout, backoff_factor=bf, retry_on=retry_on)
    async def f():
        k=len(calls); calls.append(T()); o=seq[k] if k<len(seq) else 'ok'
        if o=='ok': return k
        if o=='L': raise Listed()
        if o=='U': raise Unlisted()
        await asyncio.sleep(timeout*3)
    t0=T()
    try: r=await f(); out=('ret', r)
    except Exception as e: out=('raise', type(e).__name__)
    return [c-t0 for c in calls], out
for retries in (0,1,2,3):
  for seq in itertools.product(['ok','L','U','over'], repeat=retries+1):
    for (wait,bf,timeout) in [(2,1.0,5),(0.5,2.0,1),(0,1.0,0.2),(3,0.5,0.1)]:
      for retry_on in (None,(Listed,),(Listed,TimeoutError)):
        total+=1
        (calls,out),loop=run(lambda: drive(seq,retries,wait,bf,timeout,retry_on), horizon=1e6)
        rc,ro=ref(seq,retries,wait,bf,timeout,retry_on)
        if len(calls)!=len(rc) or any(abs(a-b)>1e-9 for a,b in zip(calls,rc)) or out!=ro:
            mism+=1
            if mism<4: print('  C19 mismatch', seq,retries,wait,bf,timeout,retry_on, calls,out,'ref',rc,ro)
print('C19 exhaustive', total, 'mismatches', mism)
