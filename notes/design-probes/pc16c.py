import asyncio, sys, logging, gc, warnings
sys.path.insert(0,'/tmp/probe'); warnings.simplefilter('ignore'); logging.disable(logging.CRITICAL)
from vloop import *
from bubus import EventBus, BaseEvent
T=lambda: asyncio.get_event_loop().time()
class U(BaseEvent):
    n:int=0
async def main():
    a=EventBus(name='A'); log=[]
    async def h(e): log.append((e.n,T())); await asyncio.sleep(1)
    a.on(U,h)
    for i in range(3): a.dispatch(U(n=i))
    await asyncio.sleep(0.5); await a.stop(); t_stop=T()
    out={}
    try: await asyncio.wait_for(a.wait_until_idle(), 50); out['idle_after_stop']=('returned', T()-t_stop)
    except TimeoutError: out['idle_after_stop']='HUNG'
    try: a.dispatch(U(n=9)); out['dispatch_after_stop']='accepted'
    except Exception as e: out['dispatch_after_stop']=type(e).__name__
    out['handlers_after_stop']=[x for x in log if x[1]>t_stop]
    return out
r,loop=run(main, horizon=500); print(r)
