"""
C03 demo: awaiting a dispatched event from ordinary code must always return, with every handler result terminal.

Scenario (all public API, all legal):
  * OrderEvent is dispatched on the `orders` bus with a short event_timeout.
  * Its handler dispatches a child CheckEvent, awaits it, then keeps working past its own timeout.
  * The CheckEvent handler "escalates" the ORIGINAL OrderEvent object to a second bus (`audit`).  Re-dispatching an
    ancestor from inside a descendant's handler makes the child graph circular (Order -> Check -> Order), which the
    library explicitly supports (see the circular-reference guard in event_are_all_children_complete()).
  * The OrderEvent handler then times out.

Expected: the timed-out handler gets an error result, OrderEvent completes, `await order` returns.
A control run without the escalation step must behave the same.
"""

import asyncio
import logging
import sys

from bubus import BaseEvent, EventBus

logging.getLogger('bubus').setLevel(logging.CRITICAL)


class OrderEvent(BaseEvent[str]):
    event_timeout: float | None = 0.3


class CheckEvent(BaseEvent[str]):
    pass


async def scenario(escalate: bool) -> list[str]:
    problems: list[str] = []
    tag = 'escalating' if escalate else 'control'
    orders = EventBus(name=f'Orders_{tag}')
    audit = EventBus(name=f'Audit_{tag}')

    async def handle_order(event: OrderEvent) -> str:
        check = orders.dispatch(CheckEvent())
        await check
        await asyncio.sleep(2.0)  # slower than OrderEvent.event_timeout -> this handler times out
        return 'order done'

    async def handle_check(event: CheckEvent) -> str:
        if escalate:
            parent = orders.event_history[event.event_parent_id]
            audit.dispatch(parent)  # hand the original order over to the audit bus as well
        return 'checked'

    orders.on(OrderEvent, handle_order)
    orders.on(CheckEvent, handle_check)
    # (the audit bus only records what it receives in its history, it has no handlers of its own)

    order = orders.dispatch(OrderEvent())
    try:
        returned = await asyncio.wait_for(asyncio.shield(_await_event(order)), timeout=4.0)
    except TimeoutError:
        stuck = {r.handler_name: r.status for r in order.event_results.values() if r.status not in ('completed', 'error')}
        problems.append(
            f'[{tag}] `await order` did not return within 4s although the handler timed out after 0.3s; '
            f'non-terminal handler results: {stuck}'
        )
    else:
        if returned is not order:
            problems.append(f'[{tag}] await returned a different object')
        for result in order.event_results.values():
            if result.status not in ('completed', 'error'):
                problems.append(f'[{tag}] await returned but result of {result.handler_name} is {result.status}')
        timed_out = [r for r in order.event_results.values() if isinstance(r.error, TimeoutError)]
        if not timed_out:
            problems.append(f'[{tag}] expected the order handler to carry a TimeoutError')

    await orders.stop(timeout=0)
    await audit.stop(timeout=0)
    return problems


async def _await_event(event: BaseEvent) -> BaseEvent:
    return await event


async def main() -> int:
    problems: list[str] = []
    problems += await scenario(escalate=False)
    problems += await scenario(escalate=True)
    if problems:
        print('C03 VIOLATED:')
        for problem in problems:
            print('  -', problem)
        return 1
    print('OK: awaiting the event returned with all handler results terminal in both scenarios')
    return 0


if __name__ == '__main__':
    sys.exit(asyncio.run(main()))
