"""
C16 demo: cancelling a bus's background task (what asyncio.run() does to every task at exit) must terminate it,
whatever the bus is doing at that moment.

Scenario (public API only, two buses, an event object that is re-used):

    front    : Request  -> on_request   dispatches an Escalate event (child of the Request) and returns
               Escalate -> on_escalate  hands the ORIGINAL Request object over to the fallback bus
    fallback : Request  -> slow_fallback (async, takes a while)

Re-dispatching the Request from inside the Escalate handler makes the Request a child of the Escalate event, which is
itself a child of the Request: Request -> Escalate -> Request. That is legal, and the library copes with such loops
elsewhere (visited sets when walking parents / children).

While slow_fallback is mid-flight we do exactly what asyncio.run() does when main() returns: cancel every task and
wait for all of them. Every task, including the run loops of both buses, must be finished shortly afterwards.
The same program with a fresh Request instead of the re-used one is run as a control.

exit status 0: all tasks terminated in both variants; 1: some task survived its cancellation (asyncio.run() would hang).
"""

import asyncio
import logging
import os
import sys
import time

from bubus import BaseEvent, EventBus

logging.getLogger('bubus').setLevel(logging.CRITICAL)  # keep the output readable


class Request(BaseEvent):
    pass


class Escalate(BaseEvent):
    request_id: str


async def leave_bus_running_and_cancel_everything(tag: str, reuse_request: bool) -> list[str]:
    """Returns the names of the tasks that are still alive 3 s after having been cancelled"""
    front = EventBus(f'Front{tag}')
    fallback = EventBus(f'Fallback{tag}')
    open_requests: dict[str, Request] = {}
    fallback_started = asyncio.Event()

    def on_request(event: Request) -> str:
        open_requests[event.event_id] = event
        front.dispatch(Escalate(request_id=event.event_id))
        return 'accepted'

    def on_escalate(event: Escalate) -> str:
        original = open_requests[event.request_id]
        fallback.dispatch(original if reuse_request else Request())
        return 'escalated'

    async def slow_fallback(event: Request) -> str:
        fallback_started.set()
        await asyncio.sleep(20)
        return 'handled by fallback'

    front.on(Request, on_request)
    front.on(Escalate, on_escalate)
    fallback.on(Request, slow_fallback)

    front.dispatch(Request())
    await asyncio.wait_for(fallback_started.wait(), timeout=5)
    await asyncio.sleep(0.05)  # slow_fallback is now mid-flight on the fallback bus, the front bus is idle

    # what asyncio.runners._cancel_all_tasks() does when main() returns
    me = asyncio.current_task()
    to_cancel = [task for task in asyncio.all_tasks() if task is not me]
    for task in to_cancel:
        task.cancel()
    t0 = time.monotonic()
    _done, pending = await asyncio.wait(to_cancel, timeout=3)
    print(
        f'[{tag}] cancelled {len(to_cancel)} tasks, {len(pending)} still alive after {time.monotonic() - t0:.2f}s'
        f' (front running={front._is_running}, fallback running={fallback._is_running})'  # pyright: ignore[reportPrivateUsage]
    )
    return sorted(task.get_name() for task in pending)


async def main() -> int:
    survivors_control = await leave_bus_running_and_cancel_everything('Control', reuse_request=False)
    survivors_reused = await leave_bus_running_and_cancel_everything('Reused', reuse_request=True)

    failed = False
    for label, survivors in (('fresh Request', survivors_control), ('re-used Request', survivors_reused)):
        if survivors:
            failed = True
            print(f'FAIL ({label}): these tasks survived being cancelled, asyncio.run() would never return:')
            for name in survivors:
                print(f'    {name}')
    if not failed:
        print('OK: every task, including both bus run loops, terminated when cancelled')
    return 1 if failed else 0


if __name__ == '__main__':
    loop = asyncio.new_event_loop()
    status = loop.run_until_complete(main())
    sys.stdout.flush()
    # do not go through loop teardown: with a surviving run loop that is exactly what hangs
    os._exit(status)
