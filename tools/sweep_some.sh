#!/bin/bash
# usage: tools/sweep_some.sh <tier> <seed> <prop>...   -- like sweep.sh for a subset of the checks
tier=$1; seed=$2; shift; shift
cd "$(dirname "$0")/.."
for p in "$@"; do
  out=$(/venv/bin/python -m bubusverif.run --property $p --tier $tier --seed $seed 2>&1); rc=$?
  head=$(echo "$out" | head -1)
  if [ $rc -ne 0 ]; then echo "== $p seed=$seed rc=$rc"; echo "$out" | grep -v "^KNOWN-FINDING" | cut -c1-400 | tail -8; else echo "ok $p seed=$seed $(echo "$head" | sed 's/.*cases=/cases=/')"; fi
done
