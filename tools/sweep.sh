#!/bin/bash
# usage: tools/sweep.sh <tier> <seed>...   -- runs every registered check for every seed; prints only non-OK outcomes
tier=$1; shift
cd "$(dirname "$0")/.."
for seed in "$@"; do
  for p in C01 C02 C03 C04 C05 C06 C07 C08 C09 C10 C11 C12 C13 C14 C15 C16 C17 C18 C19 C20; do
    out=$(/venv/bin/python -m bubusverif.run --property $p --tier $tier --seed $seed 2>&1); rc=$?
    head=$(echo "$out" | head -1)
    if [ $rc -ne 0 ]; then echo "== $p seed=$seed rc=$rc"; echo "$out" | grep -v "^KNOWN-FINDING" | cut -c1-400 | tail -8; else echo "ok $p seed=$seed $(echo "$head" | sed 's/.*cases=/cases=/')"; fi
  done
done
