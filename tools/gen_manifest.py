"""Regenerate /verif/MANIFEST.json from the check registry (bubusverif/checks.py)."""
import json, os, sys
ROOT = os.path.dirname(os.path.dirname(os.path.abspath(__file__)))
sys.path.insert(0, ROOT)
from bubusverif import checks

LEVEL_TEXT = {
 'exploration': 'Seeded exploration of the real library on a virtual-time asyncio loop with offline trace oracles: the property held on every generated program/schedule of this run (counts in the evidence file); no claim beyond the executions observed.',
 'fault_enumeration': 'Fault enumeration on the real library in virtual time: for every sampled base program the fault instant is enumerated completely (every recorded instant -eps/+eps and every midpoint); the property held at every placement; base programs themselves are sampled.',
}
NOTES = json.load(open(os.path.join(ROOT, 'tools', 'manifest_notes.json')))
props = [json.loads(l)['id'] for l in open(os.path.join(ROOT, 'properties.jsonl'))]
man = {
 'version': 1,
 'setup_cmd': '/venv/bin/python -m bubusverif.setup',
 'hooks': {'guard': 'BUBUS_VERIF', 'enable': 'no source hooks in /repo: checks observe by subclassing EventBus and wrapping in the harness process (BUBUS_VERIF=1 is exported to shard processes for completeness)',
           'baseline_off_cmd': 'cd /repo && /venv/bin/python -m pytest -ra -q -p no:cacheprovider --timeout=900 --continue-on-collection-errors', 'source_commits': [], 'add_only': True},
 'engines': [{'name': 'bubusverif', 'path': 'bubusverif/', 'serves_properties': sorted(checks.CHECKS), 'kind_free_text': 'runtime monitoring: virtual-time asyncio loop + scenario engine + offline trace oracles / reference models / postcondition hooks'}],
 'checks': [], 'not_applicable': [],
 'notes': 'Known findings (genuine defects recorded, not repaired) are listed in known_findings.json with mechanism signatures; fixed entries document the fix: commits in /repo. See DESIGN.md.',
}
for p in props:
    c = checks.CHECKS.get(p)
    if c is None:
        man['not_applicable'].append({'property_id': p, 'reason': NOTES.get('na', {}).get(p, 'check under construction in this build session; not claimed yet')})
        continue
    man['checks'].append({
        'property_id': p,
        'quick_cmd': f'/venv/bin/python -m bubusverif.run --property {p} --tier quick',
        'thorough_cmd': f'/venv/bin/python -m bubusverif.run --property {p} --tier thorough',
        'evidence_file': f'/verif/evidence/{p}.json',
        'replay_cmd_template': f'/venv/bin/python -m bubusverif.run --property {p} --replay {{path}}',
        'engine': 'bubusverif',
        'level_claimed': {'category': c.level, 'text': LEVEL_TEXT[c.level] + ' ' + NOTES.get('level', {}).get(p, ''), 'design_ref': f'DESIGN.md section 4, {p}'},
        'level_note': '; '.join(c.assumptions),
        'technique': c.technique,
    })
json.dump(man, open(os.path.join(ROOT, 'MANIFEST.json'), 'w'), indent=1)
print('checks', len(man['checks']), 'not_applicable', len(man['not_applicable']))
