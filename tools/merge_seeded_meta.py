"""Copy what tools/seeded.py measured (seeded/<id>/result.json) into the 'verified' block of seeded/<id>/meta.json."""
import glob, json, os, sys

ROOT = os.path.dirname(os.path.dirname(os.path.abspath(__file__)))
for d in sorted(glob.glob(os.path.join(ROOT, 'seeded', '*'))):
    rp, mp = os.path.join(d, 'result.json'), os.path.join(d, 'meta.json')
    if not (os.path.exists(rp) and os.path.exists(mp)):
        continue
    r, m = json.load(open(rp)), json.load(open(mp))
    old = m.get('verified', {})
    v = {
        'how': r.get('how', old.get('how')),
        'suite_with_change': r.get('suite_with_change', old.get('suite_with_change')),
        'demo_exit_without_change': r.get('demo_without_change', old.get('demo_exit_without_change')),
        'demo_exit_with_change': r.get('demo_with_change', old.get('demo_exit_with_change')),
        'demo_with_change_runs_needed': r.get('demo_with_change_runs_needed', old.get('demo_with_change_runs_needed', 1)),
        'checks': {p: {'status': c['status'], 'violations': c['violations'][:2]} for p, c in r.get('checks', {}).items()} or old.get('checks'),
    }
    if v != old:
        m['verified'] = v
        json.dump(m, open(mp, 'w'), indent=1)
        print('updated', os.path.basename(d))
    prob = []
    if not str(v['suite_with_change'] or '').strip().startswith('=') or '138 passed' not in str(v['suite_with_change']):
        prob.append('suite?')
    if v['demo_exit_without_change'] != 0 or v['demo_exit_with_change'] != 1:
        prob.append('demo?')
    watch = [m['property']] + list(m.get('also_check', []))
    if not any((v['checks'] or {}).get(p, {}).get('status') == 'CAUGHT' for p in watch):
        prob.append('not caught')
    if prob:
        print('  !!', os.path.basename(d), prob)
