"""Self-validation: apply property-breaking edits to a scratch worktree of /repo and check that the
registered check for that property reports VIOLATION (not KNOWN-FINDING, not OK).

usage: mutants.py [--only ID ...] [--tier quick]   (never touches /repo itself)"""
import argparse, json, os, subprocess, sys, shutil, time

ROOT = os.path.dirname(os.path.dirname(os.path.abspath(__file__)))
SCRATCH = '/tmp/bubus_mutant'

M = []
def m(id, props, file, old, new, note='', more=()):
    M.append(dict(id=id, props=props if isinstance(props, list) else [props], edits=[(file, old, new)] + list(more), note=note))

S, MO, H = 'bubus/service.py', 'bubus/models.py', 'bubus/helpers.py'
# ---- C01
# (the single-site 'c01_drop_result_filter' - `elif False and existing_result.completed_at is not None` in _would_create_loop - is
#  equivalent: execute_handler refuses a handler that already has a started result; see the two-site c01_rerun_on_redispatch)
m('c01_no_wildcard', 'C01', S, "        applicable_handlers.extend(self.handlers.get('*', []))\n", "        applicable_handlers.extend(self.handlers.get('*', []) if len(event.event_path) < 2 else [])\n", "wildcard handlers skipped for forwarded events")
# ---- C02
m('c02_lifo_inline', 'C02', MO, "                                    event = bus.event_queue.get_nowait()\n", "                                    event = bus.event_queue._queue.pop(); bus.event_queue._queue.appendleft(event); event = bus.event_queue.get_nowait()\n", 'inline drain takes the TAIL of the queue')
# ---- C03
m('c03_no_children_check', 'C03', MO, "            if not self.event_are_all_children_complete():\n                # incomplete_children", "            if False:\n                # incomplete_children", 'complete without waiting for children')
m('c03_no_upward_walk', 'C03', S, "            if parent_event.event_completed_signal and not parent_event.event_completed_signal.is_set():\n                parent_event.event_mark_complete_if_all_handlers_completed()\n", "            pass\n", 'skip upward propagation')
m('c03_revert_f29', 'C03', S, "            if parent_event is None:\n                break\n", "            if not parent_event:\n                break\n", 'revert F29: truthiness test on the parent event in the completion walk')
# ---- C04
m('c04_one_iteration', 'C04', MO, "                max_iterations = 1000  # Prevent infinite loops", "                max_iterations = 1  # Prevent infinite loops", 'inline loop gives up after one iteration')
# ---- C05/C06
m('c06_revert_f6', ['C06', 'C05'], S, "                self._runloop_task = loop.create_task(self._run_loop(), name=f'{self}._run_loop', context=runloop_context)", "                self._runloop_task = loop.create_task(self._run_loop(), name=f'{self}._run_loop')", 'revert F6')
m('c06_parallel_bus_skips_lock', ['C06', 'C05'], S, "        async with _get_global_lock():\n            # Process the event\n            await self.process_event(event, timeout=timeout)\n\n            # Mark task as done only if we got it from the queue\n            if from_queue:\n                self.event_queue.task_done()\n", "        if self.parallel_handlers:\n            await self.process_event(event, timeout=timeout)\n            if from_queue:\n                self.event_queue.task_done()\n        else:\n          async with _get_global_lock():\n            # Process the event\n            await self.process_event(event, timeout=timeout)\n\n            # Mark task as done only if we got it from the queue\n            if from_queue:\n                self.event_queue.task_done()\n", 'parallel buses process without the global lock')
# (reverting F27 - or F24 - alone is equivalent since the F28 repair: gather() only raises the cancellation into
#  _execute_handlers once every handler task is done, so the clean-up loop below it has nothing left to wait for;
#  c16_revert_f28 + this revert together would bring F27 back)
m('c06_revert_f27_f28', 'C06', S, "                await asyncio.gather(*[task for task, _handler in handler_tasks.values()], return_exceptions=True)\n", "                for _hid, (task, _handler) in handler_tasks.items():\n                    try:\n                        await task\n                    except Exception:\n                        pass\n", 'revert F28 and F27 together', more=[(S, "                    except asyncio.CancelledError:\n                        # a further cancellation (e.g. another enclosing timeout) while the siblings are still unwinding:\n                        # they are cancelled already, keep waiting for them instead of abandoning them mid-cleanup\n                        pass\n", "                    except asyncio.CancelledError:\n                        raise\n")])
# ---- C07
m('c07_no_path_check', 'C07', S, "            if target_bus.name in event.event_path:\n", "            if target_bus.name in event.event_path[-1:]:\n", 'two sites: forward-loop check (at selection and again before forwarding) only looks at the last bus: cycles never terminate',
  more=[(S, "            and handler.__self__.name in event.event_path\n", "            and handler.__self__.name in event.event_path[-1:]\n")])
m('c07_no_loop_check_at_all', 'C07', S, "            if target_bus.name in event.event_path:\n", "            if False:\n", 'two sites: no forwarding-loop prevention at all: cycles forward for ever',
  more=[(S, "            and handler.__self__.name in event.event_path\n", "            and False\n")])
m('c07_path_twice', 'C07', S, "                if self.name not in event.event_path:\n", "                if self.name not in event.event_path[:-1]:\n", 'bus name appended again on re-entry')
# ---- C08
m('c08_cancel_overwrites_done_children', 'C08', MO, "                if result.status == 'pending':\n                    # print('CANCELLING CHILD HANDLER'", "                if result.status != 'started':\n                    # print('CANCELLING CHILD HANDLER'", 'a parent timeout overwrites results of already completed children')
m('c01_rerun_on_redispatch', ['C01', 'C08'], S, "            if existing_result.started_at is not None:\n                raise RuntimeError(", "            if existing_result.started_at is not None and existing_result.status == 'started':\n                raise RuntimeError(", 'two sites: a completed result no longer stops a re-run when the same object is dispatched again',
  more=[(S, "            elif existing_result.completed_at is not None:\n", "            elif False and existing_result.completed_at is not None:\n")])
# ---- C09
m('c09_no_ctx_reset', 'C09', S, "            _current_handler_id_context.reset(handler_id_token)\n", "            pass\n", 'handler id context not reset after handler')
m('c09_revert_f8', ['C09', 'C07'], S, "            if current_event is not None and current_event.event_id != event.event_id:\n                        event.event_parent_id", "            if current_event is not None:\n                        event.event_parent_id", 'revert F8')
m('c09_revert_f9', 'C09', MO, "        if current_result is not None:\n            for bus in list(EventBus.all_instances):", "        if current_result is not None and False:\n            for bus in list(EventBus.all_instances):", 'revert F9')
# ---- C10
m('c10_no_cancel', 'C10', S, "                result_value: Any = await asyncio.wait_for(handler_task, timeout=event_result.timeout)", "                result_value: Any = await asyncio.wait_for(asyncio.shield(handler_task), timeout=event_result.timeout)", 'two sites: timed out handler keeps running (shielded, and the cleanup no longer cancels it)',
  more=[(S, "            if handler_task and not handler_task.done():\n                handler_task.cancel()", "            if handler_task and not handler_task.done() and False:\n                handler_task.cancel()")])
m('c10_skip_remaining', 'C10', S, "                except Exception as e:\n                    # Error already logged and recorded in execute_handler\n                    logger.debug(", "                except TimeoutError:\n                    break\n                except Exception as e:\n                    # Error already logged and recorded in execute_handler\n                    logger.debug(", 'remaining handlers skipped after a timeout')
# ---- C11
m('c11_escape', 'C11', S, "                except Exception as e:\n                    # Error already logged and recorded in execute_handler\n                    logger.debug(", "                except KeyError as e:\n                    # Error already logged and recorded in execute_handler\n                    logger.debug(", 'only KeyError swallowed in serial execution')
m('c11_wrap_error', 'C11', S, "            event.event_result_update(handler=handler, eventbus=self, error=e)\n\n            red", "            event.event_result_update(handler=handler, eventbus=self, error=RuntimeError(str(e)) if isinstance(e, ZeroDivisionError) else e)\n\n            red", 'one exception type is re-wrapped (identity lost)')
m('c11_revert_f30', 'C11', S, "            if current_task is not None and not current_task.cancelling():\n                # Nobody cancelled this task", "            if False:\n                # Nobody cancelled this task", 'revert F30: handler-raised CancelledError taken for a bus cancellation')
m('c03_revert_f31', 'C03', S, "        assert self.name.isidentifier() and not self.name.startswith('_'), (", "        assert self.name.isidentifier(), (", 'revert F31: underscore bus names accepted')
# ---- C12
m('c12_revert_f12', 'C12', MO, "                        if isinstance(self.result_type, type) and issubclass(self.result_type, BaseModel):", "                        if issubclass(self.result_type, BaseModel):", 'revert F12')
m('c10_revert_f33', 'C10', 'bubus/logging.py', "        if root_event.event_parent_id in seen_event_ids:\n            break", "        if False:\n            break", 'revert F33: the timeout log walks a circular parent chain for ever (process hang: shows as watchdog / inconclusive, never as OK)')
m('c10_revert_f34', 'C10', MO, "            if child_event.event_id in _visited:\n                continue  # reached again", "            if False:\n                continue  # reached again", 'revert F34 (both guards): timeout sweep recurses without end on a circular child graph', more=[(MO, "        if self.event_id in _visited:\n            return\n        _visited.add(self.event_id)\n        for child_event in self.event_children:\n            if False:", "        for child_event in self.event_children:\n            if False:")])
m('c12_revert_f32', 'C12', MO, "            if event_result.error is not None or isinstance(event_result.result, BaseException)\n", "            if event_result.error or isinstance(event_result.result, BaseException)\n", 'revert F32 (one site): error results selected by truthiness of the exception object')
m('c11_falsy_error_not_recorded', 'C11', MO, "        if 'error' in kwargs:\n", "        if kwargs.get('error'):\n", 'a falsy exception object raised by a handler is not recorded (R14 C11 idea)')
m('c12_accessor_order', 'C12', MO, "        results = list(valid_results.values())\n        return cast(T_EventResultType | None, results[0].result) if results else None", "        results = list(valid_results.values())\n        return cast(T_EventResultType | None, results[-1].result) if results else None", 'event_result returns the LAST result')
m('c12_flat_dict_conflict', 'C12', MO, "            if raise_if_conflicts and overlapping_keys:", "            if raise_if_conflicts and len(overlapping_keys) > 1:", 'single-key conflicts not reported')
# ---- C13
m('c13_evict_pending_first', 'C13', S, "        # First remove completed events (oldest first)\n        if completed_events and events_to_remove_count > 0:", "        # First remove completed events (oldest first)\n        if completed_events and events_to_remove_count > 0 and not pending_events:", 'completed spared while pending exist')
m('c13_no_age_sort', 'C13', S, "        completed_events.sort(key=lambda x: x[1].event_created_at.timestamp())  # pyright: ignore[reportUnknownMemberType, reportUnknownLambdaType]\n", "        pass\n", 'completed events evicted in dispatch order instead of oldest-created first')
m('c13_off_by_one', 'C13', S, "        events_to_remove_count = total_events - self.max_history_size\n", "        events_to_remove_count = total_events - self.max_history_size - 1\n", 'bound off by one')
# ---- C14
m('c14_swallow_full', 'C14', S, "                raise  # could also block indefinitely until queue has space, but dont drop silently or delete events", "                return event  # could also block indefinitely until queue has space", 'QueueFull swallowed: silent drop')
m('c14_history_before_put', 'C14', S, "                self.event_queue.put_nowait(event)\n            except asyncio.QueueFull:", "                self.event_history[event.event_id] = event\n                self.event_queue.put_nowait(event)\n            except asyncio.QueueFull:", 'history insert before the queue accepts')
# ---- C15
m('c15_no_recheck', 'C15', S, "            while not self._on_idle.is_set() or self.events_started or self.events_pending or self.event_queue.qsize():", "            while False:", 'no re-check loop')
m('c15_skip_task_done', 'C15', MO, "                                        bus.event_queue.task_done()\n", "                                        pass\n", 'inline processing skips task_done')
m('c15_revert_f25', 'C15', MO, "                                    try:\n                                        await bus.process_event(event)\n                                    finally:", "                                    await bus.process_event(event)\n                                    if True:", 'revert F25: task_done skipped when the inline processing is cancelled')
# ---- C16
m('c16_revert_f7', 'C16', S, "        except asyncio.CancelledError:\n            # The run loop task itself is being cancelled (e.g. by asyncio.run() at exit): never swallow that\n            get_next_queued_event.cancel()\n            raise\n        except (RuntimeError, QueueShutDown):", "        except (asyncio.CancelledError, RuntimeError, QueueShutDown):", 'revert F7')
m('c16_revert_f15', 'C16', MO, " or not bus._is_running:  # pyright: ignore[reportPrivateUsage]", " or False:", 'revert F15')
m('c16_revert_f18', 'C16', S, "            if self.event_queue is not None and self.event_queue._is_shutdown:  # pyright: ignore[reportPrivateUsage]\n                return", "            if False:\n                return", 'revert F18')
m('c16_no_queue_shutdown', 'C16', S, "        if self.event_queue:\n            self.event_queue.shutdown()\n", "        pass\n", 'stop without queue shutdown')
m('c16_revert_f28', 'C16', S, "                await asyncio.gather(*[task for task, _handler in handler_tasks.values()], return_exceptions=True)\n", "                for _hid, (task, _handler) in handler_tasks.items():\n                    try:\n                        await task\n                    except Exception:\n                        pass\n", 'revert F28: handler tasks awaited one by one')
# ---- C17
m('c17_wal_before_handlers', 'C17', S, "        await self._execute_handlers(event, handlers=applicable_handlers, timeout=timeout)\n\n        await self._default_log_handler(event)\n        await self._default_wal_handler(event)\n", "        await self._default_wal_handler(event)\n        await self._execute_handlers(event, handlers=applicable_handlers, timeout=timeout)\n\n        await self._default_log_handler(event)\n", 'WAL written before handlers')
m('c17_skip_nested', 'C17', S, "        if not self.wal_path:\n            return None\n", "        if not self.wal_path or event.event_parent_id:\n            return None\n", 'nested events not logged')
m('c17_wal_error_escapes', 'C17', S, "            logger.error(f'❌ {self} Failed to save event {event.event_id} to WAL file: {type(e).__name__} {e}\\n{event}')\n", "            logger.error(f'❌ {self} Failed to save event {event.event_id} to WAL file: {type(e).__name__} {e}\\n{event}')\n            raise\n", 'a failing WAL write aborts the processing of the event')
# ---- C18
m('c18_no_finally', 'C18', S, "            if event_key in self.handlers and notify_expect_handler in self.handlers[event_key]:", "            if event_key in self.handlers and notify_expect_handler in self.handlers[event_key] and future.done() and not future.cancelled():", 'subscription kept on timeout/cancel')
m('c18_include_or_predicate', 'C18', S, "            include = lambda e, orig=original_include, pred=predicate: orig(e) and pred(e)", "            include = lambda e, orig=original_include, pred=predicate: orig(e) or pred(e)", 'include OR predicate')
m('c18_ignore_exclude', 'C18', S, "            if not future.done() and include(event) and not exclude(event):", "            if not future.done() and include(event):", 'exclude ignored')
# ---- C19
m('c19_backoff_plus1', 'C19', H, "                current_wait = wait * (backoff_factor**attempt)", "                current_wait = wait * (backoff_factor ** (attempt + 1))", 'backoff exponent off by one')
m('c19_retry_unlisted', 'C19', H, "            if retry_on is not None and not isinstance(e, retry_on):\n                raise", "            if retry_on is not None and not isinstance(e, retry_on) and attempt > 0:\n                raise", 'unlisted exception retried once')
m('c19_catch_base', 'C19', H, "        except Exception as e:\n            # Check if we should retry this exception", "        except BaseException as e:\n            # Check if we should retry this exception", 'cancellation swallowed and retried')
# ---- C20
m('c20_release_twice', 'C20', H, "                        elif semaphore:\n                            semaphore.release()", "                        elif semaphore:\n                            semaphore.release()\n                            if semaphore_limit and semaphore_limit > 2: semaphore.release()", 'double release when limit>2')
m('c20_revert_f13', 'C20', H, "            if semaphore is None or getattr(semaphore, '_loop', None) not in (None, asyncio.get_running_loop()):", "            if semaphore is None:", 'revert F13')
m('c20_revert_f26', 'C20', H, "        return f'{cls.__module__}.{cls.__qualname__}.{base_name}'", "        return f'{cls.__name__}.{base_name}'", 'revert F26: class scope keyed by bare class name')
m('c20_self_is_class', 'C20', H, "        instance_id = id(args[0])\n        return f'{instance_id}.{base_name}'", "        instance_id = id(type(args[0]))\n        return f'{instance_id}.{base_name}'", "self scope keyed by class: instances block each other")


def sh(*a, **kw):
    return subprocess.run(a, text=True, capture_output=True, **kw)


def main():
    ap = argparse.ArgumentParser()
    ap.add_argument('--only', nargs='*')
    ap.add_argument('--tier', default='quick')
    ap.add_argument('--out', default=os.path.join(ROOT, 'notes', 'mutants.json'))
    a = ap.parse_args()
    res = []
    for mu in M:
        if a.only and mu['id'] not in a.only and not any(p in a.only for p in mu['props']):
            continue
        shutil.rmtree(SCRATCH, ignore_errors=True)
        sh('git', '-C', '/repo', 'worktree', 'prune')
        r = sh('git', '-C', '/repo', 'worktree', 'add', '--detach', '-f', SCRATCH, 'HEAD')
        if r.returncode:
            print('worktree failed', r.stderr); return 1
        try:
            bad = False
            for (f, old, new) in mu['edits']:
                p = os.path.join(SCRATCH, f)
                s = open(p).read()
                if s.count(old) != 1:
                    print(f"!! {mu['id']}: pattern found {s.count(old)} times in {f}"); res.append(dict(id=mu['id'], status='pattern-mismatch')); bad = True; break
                open(p, 'w').write(s.replace(old, new))
            if bad:
                continue
            c = sh('/venv/bin/python', '-c', 'import bubus', env=dict(os.environ, PYTHONPATH=SCRATCH))
            if c.returncode:
                print(f"!! {mu['id']}: does not import: {c.stderr[-300:]}"); res.append(dict(id=mu['id'], status='import-error')); continue
            for prop in mu['props']:
                t0 = time.time()
                r = sh('/venv/bin/python', '-m', 'bubusverif.run', '--property', prop, '--tier', a.tier, cwd=ROOT, env=dict(os.environ, PYTHONPATH=SCRATCH, VERIF_EVIDENCE_DIR='/tmp/mutant_evidence'))
                viol = [l for l in r.stdout.splitlines() if l.startswith('VIOLATION')]
                keys = [l.strip()[:160] for l in r.stdout.splitlines() if l.startswith('  C') and '|' in l]
                status = 'CAUGHT' if r.returncode == 1 and viol else ('inconclusive' if r.returncode == 2 else 'MISSED')
                print(f"{status:8s} {mu['id']:28s} {prop} rc={r.returncode} {time.time()-t0:.0f}s {keys[:2]}")
                res.append(dict(id=mu['id'], prop=prop, status=status, rc=r.returncode, keys=keys[:4], note=mu['note']))
        finally:
            sh('git', '-C', '/repo', 'worktree', 'remove', '--force', SCRATCH)
            shutil.rmtree(SCRATCH, ignore_errors=True)
    os.makedirs(os.path.dirname(a.out), exist_ok=True)
    old = []
    if os.path.exists(a.out) and a.only:
        old = [x for x in json.load(open(a.out)) if x['id'] not in {r['id'] for r in res}]
    json.dump(old + res, open(a.out, 'w'), indent=1)


if __name__ == '__main__':
    sys.exit(main())
