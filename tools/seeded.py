"""Run the registered checks against the seeded property-breaking changes in /verif/seeded/<id>/patch.diff.

Each change is applied to a scratch git worktree of /repo (never to /repo itself), the demonstration is run
with and without it, then the check of the property it targets (and optionally every check) is run with
PYTHONPATH pointing at the scratch tree.  Results go to seeded/<id>/result.json and notes/seeded_matrix.json."""
import argparse, glob, json, os, shutil, subprocess, sys, time

ROOT = os.path.dirname(os.path.dirname(os.path.abspath(__file__)))
SCRATCH = f'/tmp/bubus_seeded_{os.getpid()}'  # per process: two runs must never share a worktree
PY = '/venv/bin/python'


def sh(*a, **kw):
    return subprocess.run(a, text=True, capture_output=True, **kw)


def main():
    ap = argparse.ArgumentParser()
    ap.add_argument('--only', nargs='*')
    ap.add_argument('--all-checks', action='store_true')
    ap.add_argument('--tier', default='quick')
    ap.add_argument('--suite', action='store_true', help='also run the repository test suite with the change applied')
    a = ap.parse_args()
    matrix = {}
    mp = os.path.join(ROOT, 'notes', 'seeded_matrix.json')
    if os.path.exists(mp):
        matrix = json.load(open(mp))
    for d in sorted(glob.glob(os.path.join(ROOT, 'seeded', '*'))):
        sid = os.path.basename(d)
        if a.only and sid not in a.only:
            continue
        meta = json.load(open(os.path.join(d, 'meta.json')))
        prop = meta['property']
        shutil.rmtree(SCRATCH, ignore_errors=True)
        sh('git', '-C', '/repo', 'worktree', 'prune')
        r = sh('git', '-C', '/repo', 'worktree', 'add', '--detach', '-f', SCRATCH, 'HEAD')
        assert r.returncode == 0, r.stderr
        out = {'seed': sid, 'property': prop, 'checks': {}}
        try:
            env = dict(os.environ, PYTHONPATH=SCRATCH, VERIF_EVIDENCE_DIR=f'/tmp/seeded_evidence_{os.getpid()}')
            demo = os.path.join(d, 'demo.py')
            r0 = sh(PY, demo, env=env, cwd=SCRATCH, timeout=300)
            out['demo_without_change'] = r0.returncode
            r = sh('git', '-C', SCRATCH, 'apply', os.path.join(d, 'patch.diff'))
            if r.returncode:
                out['error'] = 'patch does not apply: ' + r.stderr[-300:]
                print(sid, out['error'])
                continue
            # (a demonstration may depend on per-process accidents such as the iteration order of the WeakSet of buses:
            # up to 5 process runs, the number needed is recorded)
            for attempt in range(1, 6):
                r1 = sh(PY, demo, env=env, cwd=SCRATCH, timeout=300)
                if r1.returncode != 0:
                    break
            out['demo_with_change'] = r1.returncode
            out['demo_with_change_runs_needed'] = attempt
            if a.suite:
                # (tests/test_semaphores.py is wall-clock sensitive and fails on a loaded machine - also on the unchanged tree: a run
                # with failures is repeated, up to 3 runs; every run's summary line is kept)
                lines = []
                for _run in range(3):
                    rs = sh(PY, '-m', 'pytest', '-q', '-p', 'no:cacheprovider', '--timeout=900', '-q', env=env, cwd=SCRATCH, timeout=1800)
                    tail = [l for l in rs.stdout.splitlines() if ' passed' in l or ' failed' in l]
                    lines.append(tail[-1] if tail else rs.stdout[-200:])
                    if ' failed' not in lines[-1] and ' error' not in lines[-1]:
                        break
                    lines[-1] += ' [' + '; '.join(l for l in rs.stdout.splitlines() if l.startswith('FAILED'))[:300] + ']'
                out['suite_with_change'] = lines[-1]
                if len(lines) > 1:
                    out['suite_earlier_runs_under_load'] = lines[:-1]
                print(sid, 'suite:', out['suite_with_change'])
            props = [prop] + ([p for p in [f'C{i:02d}' for i in range(1, 21)] if p != prop] if a.all_checks else meta.get('also_check', []))
            for p in props:
                t0 = time.time()
                r = sh(PY, '-m', 'bubusverif.run', '--property', p, '--tier', a.tier, cwd=ROOT, env=env)
                keys = [l.strip()[:200] for l in r.stdout.splitlines() if l.startswith('  C') and '|' in l]
                status = 'CAUGHT' if r.returncode == 1 else ('inconclusive' if r.returncode == 2 else 'missed')
                out['checks'][p] = {'status': status, 'rc': r.returncode, 'wall_s': round(time.time() - t0, 1), 'violations': keys[:4]}
                print(f"{sid:28s} {p} {status} {keys[:1]}")
        finally:
            sh('git', '-C', '/repo', 'worktree', 'remove', '--force', SCRATCH)
            shutil.rmtree(SCRATCH, ignore_errors=True)
            prev = {}
            rp = os.path.join(d, 'result.json')
            if os.path.exists(rp):
                prev = json.load(open(rp))
            if 'suite_with_change' in prev and 'suite_with_change' not in out:
                out['suite_with_change'] = prev['suite_with_change']
            out['how'] = 'tools/seeded.py: patch applied to a scratch git worktree of /repo HEAD (/tmp/bubus_seeded_<pid>), demo.py run before and after applying it, repository suite run with it (pytest -q), registered check(s) run with PYTHONPATH=<scratch> at tier ' + a.tier
            json.dump(out, open(rp, 'w'), indent=1)
            matrix[sid] = {'property': prop, 'demo': [out.get('demo_without_change'), out.get('demo_with_change')], 'checks': {p: v['status'] for p, v in out['checks'].items()}}
    json.dump(matrix, open(mp, 'w'), indent=1, sort_keys=True)


if __name__ == '__main__':
    sys.exit(main())
