"""Offline setup: nothing to build. The framework is pure Python run by the repository's interpreter (/venv);
bubus is imported from /repo's working tree (editable install), so every check sees the current sources."""
import sys

if __name__ == '__main__':
    import bubus
    print('bubus from', bubus.__file__, 'python', sys.version.split()[0])
