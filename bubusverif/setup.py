"""Offline setup: put icontract beside the repository's interpreter (/verif/.deps, git-ignored).
Never fails the build: the contracts fall back to a local wrapper when the wheel is unavailable."""
from .run import ensure_deps

if __name__ == '__main__':
    ensure_deps()
    try:
        import icontract  # noqa: F401
        print('icontract available')
    except Exception as ex:  # pragma: no cover
        print('icontract unavailable, using local fallback:', ex)
