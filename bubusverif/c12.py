"""C12: typed handler results (pydantic itself as referee) and accessor views (reference model
written from the README), driven through a real bus on the virtual-time loop."""
from __future__ import annotations

import asyncio
import hashlib
import json
import random
from typing import Any, Literal, Optional, Union

from typing import Annotated

from pydantic import AfterValidator, BaseModel, Field, PositiveInt, TypeAdapter

from . import engine
from .core import Family, Result
from .vloop import Hang, VLoop, hard_close


def _even_x(p):
    if p.x % 2:
        raise ValueError('x must be even')
    return p


class Pt(BaseModel):
    x: int
    y: int = 0


class Box(BaseModel):
    name: str
    pts: list[Pt] = []


TYPES: dict[str, Any] = {
    'none': None,
    'int': int, 'str': str, 'float': float, 'bool': bool, 'bytes': bytes,
    'list[int]': list[int], 'list[str]': list[str], 'dict[str,int]': dict[str, int], 'tuple[int,str]': tuple[int, str], 'set[int]': set[int],
    'dict[str,list[int]]': dict[str, list[int]], 'list[dict[str,int]]': list[dict[str, int]],
    'int|None': int | None, 'Optional[str]': Optional[str], 'Union[int,str]': Union[int, str], 'Literal': Literal['a', 'b', 3],
    'list[int]|None': list[int] | None, 'Union[Pt,int]': Union[Pt, int],
    'Pt': Pt, 'Box': Box, 'list[Pt]': list[Pt], 'dict[str,Pt]': dict[str, Pt], 'Optional[Pt]': Optional[Pt],
    # constrained types: the constraint is part of the declared type (the referee - pydantic's own TypeAdapter - enforces it)
    'PositiveInt': PositiveInt, 'Optional[PositiveInt]': Optional[PositiveInt], 'ShortList': Annotated[list[int], Field(max_length=2)],
    'CodeStr': Annotated[str, Field(pattern=r'^[A-Z]{3}$')], 'EvenPt': Annotated[Pt, AfterValidator(_even_x)], 'Percent': Annotated[float, Field(ge=0, le=100)],
}
NONCLASS = {'PositiveInt', 'Optional[PositiveInt]', 'ShortList', 'CodeStr', 'EvenPt', 'Percent', 'int|None', 'Optional[str]', 'Union[int,str]', 'Literal', 'list[int]|None', 'Union[Pt,int]', 'Optional[Pt]'}


def mkval(spec, bus=None):
    """Value spec (JSON) -> python value."""
    if isinstance(spec, dict) and len(spec) == 1:
        (k, v), = spec.items()
        if k == 'j':
            return v
        if k == 'tuple':
            return tuple(mkval(x) for x in v)
        if k == 'set':
            return set(v)
        if k == 'bytes':
            return bytes.fromhex(v)
        if k == 'pt':
            return Pt(**v)
        if k == 'box':
            return Box(**v)
        if k == 'exc':
            return engine.make_exc(v, 'ret')
        if k == 'event':
            return engine.E5(tag=v)
        if k == 'float':
            return float(v)
    raise AssertionError(spec)


def rand_json(rng: random.Random, depth=0):
    x = rng.random()
    if x < 0.2:
        return rng.choice([0, 1, -1, 2, 7, 42, 10**12, -3])
    if x < 0.3:
        return rng.choice([True, False])
    if x < 0.4:
        return rng.choice([1.5, 0.0, -2.25, 1e10, 3.0])
    if x < 0.6:
        return rng.choice(['', 'a', 'b', '5', '-1', 'abc', 'true', '1.5', 'ünï', '𝄞x', 'x' * 30])
    if x < 0.65:
        return None
    if depth > 2:
        return 1
    if x < 0.82:
        return [rand_json(rng, depth + 1) for _ in range(rng.randint(0, 3))]
    return {rng.choice(['a', 'b', 'x', 'y', 'name', 'pts', 'k1']): rand_json(rng, depth + 1) for _ in range(rng.randint(0, 3))}


def rand_valspec(rng: random.Random, tname: str):
    """Mostly values shaped for the type (conforming / coercible / nearly conforming), sometimes anything."""
    x = rng.random()
    if x < 0.08:
        return {'j': None}
    if x < 0.13:
        return {'exc': rng.choice(['ValueError', 'KeyError', 'Custom', 'Falsy', 'FalsyBool', 'TwoArg'])}
    if x < 0.17:
        return {'event': rng.randint(1, 9)}
    if x < 0.35:
        return {'j': rand_json(rng)}
    pools = {
        'int': [{'j': 5}, {'j': '5'}, {'j': 5.0}, {'j': 5.5}, {'j': True}, {'j': 'x'}, {'j': [1]}, {'j': -7}],
        'str': [{'j': 'hi'}, {'j': 5}, {'bytes': '6869'}, {'j': ['a']}, {'j': ''}],
        'float': [{'j': 1.5}, {'j': 2}, {'j': '2.5'}, {'j': 'x'}, {'j': True}],
        'bool': [{'j': True}, {'j': 0}, {'j': 'yes'}, {'j': 'maybe'}, {'j': 2}],
        'bytes': [{'bytes': '00ff'}, {'j': 'text'}, {'j': 5}],
        'list[int]': [{'j': [1, 2]}, {'j': ['1', 2]}, {'tuple': [{'j': 1}, {'j': 2}]}, {'j': ['a']}, {'j': []}, {'set': [1, 2]}, {'j': 5}],
        'list[str]': [{'j': ['a', 'b']}, {'j': [1]}, {'j': 'ab'}, {'j': []}],
        'dict[str,int]': [{'j': {'a': 1}}, {'j': {'a': '1'}}, {'j': {'a': 'x'}}, {'j': {}}, {'j': [['a', 1]]}],
        'tuple[int,str]': [{'tuple': [{'j': 1}, {'j': 'a'}]}, {'j': [1, 'a']}, {'j': [1]}, {'tuple': [{'j': 'a'}, {'j': 1}]}, {'j': ['2', 'b']}],
        'set[int]': [{'set': [1, 2]}, {'j': [1, 1, 2]}, {'j': ['x']}],
        'dict[str,list[int]]': [{'j': {'a': [1, 2]}}, {'j': {'a': ['1']}}, {'j': {'a': 1}}, {'j': {}}],
        'list[dict[str,int]]': [{'j': [{'a': 1}, {'b': 2}]}, {'j': [{'a': 'x'}]}, {'j': [1]}],
        'int|None': [{'j': 5}, {'j': '5'}, {'j': 'x'}, {'j': None}, {'j': [1]}],
        'Optional[str]': [{'j': 'a'}, {'j': 5}, {'j': None}],
        'Union[int,str]': [{'j': 5}, {'j': 'a'}, {'j': '5'}, {'j': 5.5}, {'j': [1]}, {'j': True}],
        'Literal': [{'j': 'a'}, {'j': 'b'}, {'j': 3}, {'j': 'c'}, {'j': '3'}, {'j': 4}],
        'list[int]|None': [{'j': [1]}, {'j': None}, {'j': 'x'}, {'j': ['2']}],
        'Union[Pt,int]': [{'pt': {'x': 1}}, {'j': {'x': 1}}, {'j': 5}, {'j': 'x'}, {'j': {'y': 1}}],
        'Pt': [{'pt': {'x': 1, 'y': 2}}, {'j': {'x': 1}}, {'j': {'x': '3', 'y': 4}}, {'j': {'y': 1}}, {'j': {'x': 'q'}}, {'j': 5}, {'box': {'name': 'n'}}],
        'Box': [{'box': {'name': 'n', 'pts': [{'x': 1}]}}, {'j': {'name': 'n', 'pts': [{'x': 1}, {'x': '2'}]}}, {'j': {'name': 'n', 'pts': [{'y': 1}]}}, {'j': {'pts': []}}, {'pt': {'x': 1}}],
        'list[Pt]': [{'j': [{'x': 1}, {'x': 2, 'y': 3}]}, {'j': [{'y': 1}]}, {'j': []}, {'j': {'x': 1}}],
        'dict[str,Pt]': [{'j': {'a': {'x': 1}}}, {'j': {'a': {'y': 1}}}, {'j': {}}],
        'Optional[Pt]': [{'pt': {'x': 1}}, {'j': {'x': 1}}, {'j': None}, {'j': {'q': 1}}],
        'PositiveInt': [{'j': 7}, {'j': -5}, {'j': 0}, {'j': '3'}, {'j': 'x'}, {'j': 2.0}],
        'Optional[PositiveInt]': [{'j': 7}, {'j': -5}, {'j': 0}, {'j': None}],
        'ShortList': [{'j': [1, 2]}, {'j': [1, 2, 3]}, {'j': []}, {'j': ['1']}, {'j': 'ab'}],
        'CodeStr': [{'j': 'ABC'}, {'j': 'abc'}, {'j': 'ABCD'}, {'j': 5}, {'j': ''}],
        'EvenPt': [{'pt': {'x': 2}}, {'pt': {'x': 3}}, {'j': {'x': 4}}, {'j': {'x': 5}}, {'j': 6}],
        'Percent': [{'j': 50}, {'j': 100.0}, {'j': 100.5}, {'j': -1}, {'j': '12.5'}],
        'none': [{'j': 5}, {'j': 'a'}, {'j': [1, 2]}, {'j': {'a': 1}}, {'pt': {'x': 1}}, {'tuple': [{'j': 1}]}, {'bytes': '00'}],
    }
    return rng.choice(pools[tname])


def run_async(fn, seed=0, horizon=600.0):
    engine.patch_threads()
    engine.reset_globals(seed)
    loop = VLoop(seed=seed, horizon=horizon, max_steps=300_000)
    asyncio.set_event_loop(loop)
    loop.set_exception_handler(lambda l, ctx: None)
    try:
        return loop.run_until_complete(fn())
    finally:
        for b in list(engine.EventBus.all_instances):
            b._is_running = False
        hard_close(loop)


def eq(a, b) -> bool:
    """Equality that also compares types (1 != 1.0 != True) recursively."""
    if type(a) is not type(b):
        return False
    if isinstance(a, (list, tuple)):
        return len(a) == len(b) and all(eq(x, y) for x, y in zip(a, b))
    if isinstance(a, dict):
        return list(a.keys()) == list(b.keys()) and all(eq(a[k], b[k]) for k in a)
    return a == b


# ------------------------------------------------------------------------------------------ typed results
def exec_typed(case) -> Result:
    res = Result(counters={})
    tname, vspec, how = case['type'], case['value'], case['how']
    T = TYPES[tname]

    async def main():
        bus = engine.EventBus(name='T')
        value = mkval(vspec)
        if how == 'generic' and T is not None:
            Ev = type('TypedEv', (engine.BaseEvent[T],), {'__module__': __name__})  # declared through the generic parameter
            ev = Ev()
        elif how == 'field' and T is not None:
            Ev = type('FieldEv', (engine.BaseEvent,), {'__module__': __name__, '__annotations__': {'event_result_type': Any}, 'event_result_type': T})
            ev = Ev()
        elif how.startswith('sub') and T is not None:
            # a class hierarchy: a typed parent event class (instantiated first, or not) and a subclass that declares its own,
            # different result type in its class body - the subclass's declaration is what counts for its instances
            T0 = TYPES[case.get('parent_type') or 'str']
            if how == 'subgeneric':
                Parent = type('ParentEv', (engine.BaseEvent[T0],), {'__module__': __name__})
            else:
                Parent = type('ParentEv', (engine.BaseEvent,), {'__module__': __name__, '__annotations__': {'event_result_type': Any}, 'event_result_type': T0})
            if case.get('parent_first', True):
                Parent()
            Ev = type('ChildEv', (Parent,), {'__module__': __name__, '__annotations__': {'event_result_type': Any}, 'event_result_type': T})
            ev = Ev()
        else:
            ev = engine.E0(event_result_type=T) if T is not None else engine.E0()
        declared = ev.event_result_type

        async def h(e):
            return value
        bus.on(type(ev), h)
        bus.dispatch(ev)
        done, _ = await asyncio.wait({asyncio.ensure_future(_aw(ev))}, timeout=5.0)
        r = list(ev.event_results.values())[0] if ev.event_results else None
        await bus.stop(timeout=0, clear=True)
        return value, r, declared, bool(done)

    async def _aw(e):
        await e

    try:
        value, r, declared, done = run_async(main, seed=case.get('i', 0))
    except Hang as h:
        res.violations.append({'prop': 'C12', 'clause': 'typed-hang', 'mech': None, 'w': {'case': case, 'hang': str(h)}})
        return res
    w = {'type': tname, 'value': vspec, 'how': how}
    res.counters['c12_typed'] = 1
    res.counters[f'c12_typed_{how}'] = 1
    if tname in NONCLASS:
        res.counters['c12_typed_nonclass'] = 1

    def bad(clause, **kw):
        res.violations.append({'prop': 'C12', 'clause': clause, 'mech': None, 'w': dict(w, **kw)})

    if not done or r is None:
        bad('event-did-not-complete')
        return res
    if TYPES[tname] is not None and declared != TYPES[tname]:
        bad('declared-type-not-picked-up', declared=str(declared))
        return res
    got = {'status': r.status, 'result': repr(r.result)[:80], 'error': repr(r.error)[:120]}
    if isinstance(value, BaseException):
        res.counters['c12_exc_values'] = 1
        if r.status != 'error' or r.error is not value or r.result is not None:
            bad('returned-exception-not-error', got=got)
        return res
    if value is None:
        if r.status != 'completed' or r.result is not None or r.error is not None:
            bad('none-not-stored-as-completed-none', got=got)
        return res
    if isinstance(value, engine.BaseEvent):
        if r.status != 'completed' or r.result is not value:
            bad('event-result-not-stored-unchanged', got=got)
        return res
    if T is None:
        res.counters['c12_untyped'] = 1
        if r.status != 'completed' or r.result is not value:
            bad('untyped-value-not-stored-unchanged', got=got)
        return res
    # referee: pydantic itself
    try:
        want = TypeAdapter(T).validate_python(value)
        ok = True
    except Exception:
        want, ok = None, False
    if ok:
        res.counters['c12_conforming'] = 1
        if r.status != 'completed':
            bad('conforming-value-recorded-as-error', got=got, want=repr(want)[:80])
        elif not eq(r.result, want):
            bad('stored-value-differs-from-validated-value', got=got, want=repr(want)[:80])
        else:
            try:
                TypeAdapter(T).validate_python(r.result, strict=True)
            except Exception as ex:
                bad('completed-value-does-not-conform', got=got, strict_error=str(ex)[:200])
    else:
        res.counters['c12_nonconforming'] = 1
        if r.status != 'error' or r.result is not None or not isinstance(r.error, Exception):
            bad('non-conforming-value-not-an-error-without-value', got=got)
    res.nontrivial = True
    res.fingerprint = hashlib.blake2b(json.dumps(['typed', tname, vspec, how], sort_keys=True, default=str).encode(), digest_size=8).hexdigest()
    res.sample = {'kind': 'typed', 'type': tname, 'value': vspec, 'how': how, 'observed': got, 'referee_accepts': ok}
    return res


# ------------------------------------------------------------------------------------------ accessor views
def ref_default_include(r) -> bool:
    """README: 'default: only non-None, non-exception results' (a forwarded event is not a return value)."""
    return r['status'] == 'completed' and r['value'] is not None and not isinstance(r['value'], BaseException) and r['error'] is None and not isinstance(r['value'], engine.BaseEvent)


REFINE = {
    'default': lambda v: True,
    'int': lambda v: isinstance(v, int) and not isinstance(v, bool),
    'str': lambda v: isinstance(v, str),
    'long': lambda v: hasattr(v, '__len__') and len(v) > 1,
    'dict_a': lambda v: isinstance(v, dict) and 'a' in v,
    'never': lambda v: False,
}


class Raises(Exception):
    def __init__(self, exc):
        self.exc = exc


def reference(results: list, accessor: str, inc: str, raise_if_any: bool, raise_if_none: bool, raise_if_conflicts: bool):
    """Reference model of the accessors, written from the README.  `results` = [{'hid','name','status','value','error'}] in handler order."""
    pred = REFINE[inc]

    def include(r):
        return ref_default_include(r) and pred(r['value'])
    if accessor == 'flat_dict':
        base = include
        include = lambda r: isinstance(r['value'], dict) and base(r)  # noqa: E731
    elif accessor == 'flat_list':
        base = include
        include = lambda r: isinstance(r['value'], list) and base(r)  # noqa: E731
    errors = [r for r in results if r['error'] is not None or isinstance(r['value'], BaseException)]
    included = [r for r in results if include(r)]
    if raise_if_any and errors:
        raise Raises(errors[0]['error'] if errors[0]['error'] is not None else errors[0]['value'])
    if raise_if_none and not included:
        raise Raises(ValueError)
    if accessor == 'result':
        return included[0]['value'] if included else None
    if accessor == 'list':
        return [r['value'] for r in included]
    if accessor == 'by_handler_id':
        return {r['hid']: r['value'] for r in included}
    if accessor == 'by_handler_name':
        return {r['name']: r['value'] for r in included}
    if accessor == 'filtered':
        return [r['hid'] for r in included]
    if accessor == 'flat_dict':
        merged: dict = {}
        for r in included:
            if not r['value']:
                continue
            if raise_if_conflicts and (merged.keys() & r['value'].keys()):
                raise Raises(ValueError)
            merged.update(r['value'])
        return merged
    if accessor == 'flat_list':
        out = []
        for r in included:
            out.extend(r['value'])
        return out
    raise AssertionError(accessor)


ACCESSORS = ['result', 'list', 'by_handler_id', 'by_handler_name', 'filtered', 'flat_dict', 'flat_list']


def exec_accessors(case) -> Result:
    res = Result(counters={})
    outcomes = case['outcomes']

    async def main():
        bus = engine.EventBus(name='A')
        bus2 = engine.EventBus(name='A2')
        ev = engine.E0()
        made = []
        hs = []
        for i, oc in enumerate(outcomes):
            kind = oc['k']

            def mk(i=i, oc=oc, kind=kind):
                if kind == 'raise':
                    exc = engine.make_exc(oc['v'], f'h{i}')
                    made.append(('raise', exc))

                    async def h(e):
                        await asyncio.sleep(oc.get('d', 0))
                        raise exc
                elif kind == 'val':
                    val = mkval(oc['v'])
                    made.append(('val', val))
                    if oc.get('sync'):
                        def h(e):
                            return val
                    else:
                        async def h(e):
                            await asyncio.sleep(oc.get('d', 0))
                            return val
                elif kind == 'fwd':
                    made.append(('fwd', None))

                    def h(e):
                        return bus2.dispatch(engine.E1(tag=i))
                else:
                    raise AssertionError(kind)
                h.__name__ = oc.get('name', f'h{i}')
                h.__qualname__ = h.__name__
                return h
            hs.append(mk())
        for h in hs:
            bus.on(engine.E0, h)
        bus.dispatch(ev)
        await asyncio.wait({asyncio.ensure_future(_aw(ev))}, timeout=10.0)
        await bus2.wait_until_idle()
        # observed results (ground truth for the views): the recorded results in handler order
        recorded = []
        order_ok = True
        for i, (hid, r) in enumerate(ev.event_results.items()):
            recorded.append({'hid': hid, 'name': r.handler_name, 'status': r.status, 'value': r.result, 'error': r.error})
        if len(recorded) != len(hs):
            order_ok = False
        else:
            for i, r in enumerate(recorded):
                if r['hid'] != engine.S.get_handler_id(hs[i], bus):
                    order_ok = False
        obs = []
        for acc in ACCESSORS:
            for inc in case['includes']:
                for ria, rin, ric in case['flags']:
                    pred = REFINE[inc]

                    def include(er, pred=pred):
                        return engine.BaseEvent._event_result_is_truthy(er) and pred(er.result)
                    kw = dict(raise_if_any=ria, raise_if_none=rin)
                    if inc != 'default':
                        kw['include'] = include
                    try:
                        if acc == 'result':
                            out = await ev.event_result(**kw)
                        elif acc == 'list':
                            out = await ev.event_results_list(**kw)
                        elif acc == 'by_handler_id':
                            out = await ev.event_results_by_handler_id(**kw)
                        elif acc == 'by_handler_name':
                            out = await ev.event_results_by_handler_name(**kw)
                        elif acc == 'filtered':
                            out = list((await ev.event_results_filtered(**kw)).keys())
                        elif acc == 'flat_dict':
                            out = await ev.event_results_flat_dict(raise_if_conflicts=ric, **kw)
                        else:
                            out = await ev.event_results_flat_list(**kw)
                        got = ('ok', out)
                    except BaseException as ex:
                        got = ('raise', ex)
                    obs.append((acc, inc, ria, rin, ric, got))
        snapshot_after = [(hid, r.status, r.result, r.error) for hid, r in ev.event_results.items()]
        await bus.stop(timeout=0, clear=True)
        await bus2.stop(timeout=0, clear=True)
        return recorded, obs, made, order_ok, snapshot_after

    async def _aw(e):
        await e

    try:
        recorded, obs, made, order_ok, after = run_async(main, seed=case.get('i', 0))
    except Hang as h:
        res.violations.append({'prop': 'C12', 'clause': 'accessor-hang', 'mech': None, 'w': {'case': case, 'hang': str(h)}})
        return res
    w0 = {'outcomes': outcomes}
    if not order_ok:
        res.violations.append({'prop': 'C12', 'clause': 'results-not-in-handler-order', 'mech': None, 'w': dict(w0, recorded=[(r['name'], r['status']) for r in recorded])})
        return res
    # recorded results must reflect what the handlers did (untyped event: value stored unchanged, raise -> error identity)
    for (kind, obj), r in zip(made, recorded):
        if kind == 'raise' and not (r['status'] == 'error' and r['error'] is obj):
            res.violations.append({'prop': 'C12', 'clause': 'raised-exception-not-recorded', 'mech': None, 'w': dict(w0, name=r['name'])})
        if kind == 'val' and not isinstance(obj, BaseException) and not (r['status'] == 'completed' and r['value'] is obj):
            res.violations.append({'prop': 'C12', 'clause': 'value-not-recorded-unchanged', 'mech': None, 'w': dict(w0, name=r['name'], status=r['status'])})
    for (acc, inc, ria, rin, ric, got) in obs:
        res.counters['c12_accessor_calls'] = res.counters.get('c12_accessor_calls', 0) + 1
        try:
            want = ('ok', reference(recorded, acc, inc, ria, rin, ric))
        except Raises as r:
            want = ('raise', r.exc)
        ok = False
        if want[0] == 'ok' and got[0] == 'ok':
            ok = eq(got[1], want[1]) if not isinstance(want[1], dict) else (eq(got[1], want[1]))
        elif want[0] == 'raise' and got[0] == 'raise':
            ok = (got[1] is want[1]) if isinstance(want[1], BaseException) else isinstance(got[1], want[1])
        if not ok:
            res.violations.append({'prop': 'C12', 'clause': f'accessor-{acc}-differs-from-reference', 'mech': None,
                                   'w': dict(w0, include=inc, raise_if_any=ria, raise_if_none=rin, raise_if_conflicts=ric, got=(got[0], repr(got[1])[:160]), want=(want[0], repr(want[1])[:160]))})
    # views are pure: the recorded results are unchanged by reading them
    now = [(r['hid'], r['status'], r['value'], r['error']) for r in recorded]
    if len(now) != len(after) or any(a[0] != b[0] or a[1] != b[1] or a[2] is not b[2] or a[3] is not b[3] for a, b in zip(now, after)):
        res.violations.append({'prop': 'C12', 'clause': 'accessors-mutated-results', 'mech': None, 'w': w0})
    res.counters['c12_accessor_cases'] = 1
    res.nontrivial = True
    res.fingerprint = hashlib.blake2b(json.dumps(['acc', outcomes], sort_keys=True, default=str).encode(), digest_size=8).hexdigest()
    res.sample = {'kind': 'accessors', 'outcomes': outcomes, 'recorded': [(r['name'], r['status'], repr(r['value'])[:40]) for r in recorded],
                  'calls': len(obs), 'example_call': [str(x)[:80] for x in obs[0]] if obs else None}
    return res


class C12Family(Family):
    name = 'typed_results'
    props = ('C12',)

    def cases(self, seed, tier, prop):
        n_typed = 1500 if tier == 'quick' else 30000
        n_acc = 1000 if tier == 'quick' else 10000
        tnames = list(TYPES)
        for i in range(n_typed):
            rng = random.Random(f'c12t/{seed}/{i}')
            tname = rng.choice(tnames)  # not i % len: case index correlates with the shard, and one process must see many types
            how = rng.choice(['kwarg', 'kwarg', 'generic', 'field', 'subgeneric', 'subfield'])
            case = {'family': self.name, 'kind': 'typed', 'i': i, 'type': tname, 'value': rand_valspec(rng, tname), 'how': how}
            if how.startswith('sub'):
                case['parent_type'] = rng.choice(['str', 'int', 'bytes', 'list[int]', 'Pt'])
                case['parent_first'] = rng.random() < 0.75
            yield case
        all_flags = [(a, b, c) for a in (True, False) for b in (True, False) for c in (True, False)]
        for i in range(n_acc):
            rng = random.Random(f'c12a/{seed}/{i}')
            k = rng.randint(0, 5)
            outcomes = []
            mode = rng.choice(['mixed', 'mixed', 'mixed', 'dicts', 'lists'])
            for j in range(k):
                x = rng.random()
                name = f'h{j}' if rng.random() < 0.85 else 'dup'
                if mode == 'dicts' and x < 0.8:
                    # several handlers returning small dicts over a tiny key/value space: shared keys with EQUAL values (1 == True
                    # included), shared keys with different values, disjoint keys
                    d = {rng.choice(['a', 'b']): rng.choice([0, 1, True, 'x']) for _ in range(rng.randint(1, 2))}
                    outcomes.append({'k': 'val', 'v': {'j': d}, 'name': name, 'd': rng.choice([0, 0.01])})
                elif mode == 'lists' and x < 0.8:
                    outcomes.append({'k': 'val', 'v': {'j': [rng.randint(0, 2) for _ in range(rng.randint(0, 3))]}, 'name': name, 'sync': rng.random() < 0.3})
                elif x < 0.12:
                    outcomes.append({'k': 'raise', 'v': rng.choice(['ValueError', 'KeyError', 'Custom', 'Falsy', 'FalsyBool', 'TwoArg', 'Unhashable']), 'd': rng.choice([0, 0.01]), 'name': name})
                elif x < 0.18:
                    outcomes.append({'k': 'val', 'v': {'exc': rng.choice(['ValueError', 'Custom', 'Falsy', 'FalsyBool'])}, 'name': name})
                elif x < 0.24:
                    outcomes.append({'k': 'fwd', 'name': name})
                elif x < 0.34:
                    outcomes.append({'k': 'val', 'v': {'j': None}, 'name': name, 'sync': rng.random() < 0.3})
                elif x < 0.55:
                    d = {rng.choice(['a', 'b', 'c', 'd']): rng.randint(0, 5) for _ in range(rng.randint(0, 3))}
                    outcomes.append({'k': 'val', 'v': {'j': d}, 'name': name, 'd': rng.choice([0, 0.01, 0.05])})
                elif x < 0.75:
                    outcomes.append({'k': 'val', 'v': {'j': [rng.randint(0, 9) for _ in range(rng.randint(0, 3))]}, 'name': name, 'sync': rng.random() < 0.3})
                else:
                    outcomes.append({'k': 'val', 'v': {'j': rng.choice([0, 1, 5, 'x', 'long string', 2.5, False, True, ''])}, 'name': name, 'd': rng.choice([0, 0.01])})
            incs = ['default'] + rng.sample(['int', 'str', 'long', 'dict_a', 'never'], 2)
            yield {'family': self.name, 'kind': 'accessors', 'i': i, 'outcomes': outcomes, 'includes': incs, 'flags': all_flags}

    def execute(self, case, prop):
        r = exec_typed(case) if case['kind'] == 'typed' else exec_accessors(case)
        engine.maybe_gc()
        return r
