"""Virtual-time asyncio event loop.

The real library runs unmodified on this loop; only `loop.time()` is virtual.  When nothing is
ready and no real-thread job is outstanding, the clock jumps to the earliest timer.  Hangs are
therefore deterministic: "no ready callback, no timer, no thread job" is a deadlock, and a clock
that passes the horizon (or an iteration count that passes max_steps) aborts the run with `Hang`.
"""
from __future__ import annotations

import asyncio
import heapq
import random


class Hang(Exception):
    """Raised out of the loop when it cannot make progress (deadlock / horizon / step budget)."""

    def __init__(self, kind: str, msg: str):
        super().__init__(f'{kind}: {msg}')
        self.kind = kind  # 'deadlock' | 'horizon' | 'steps' | 'livelock'


class VLoop(asyncio.SelectorEventLoop):
    def __init__(self, seed: int = 0, jitter: float = 0.0, cpu: float = 0.0, horizon: float = 3600.0, max_steps: int = 3_000_000, livelock: int = 40_000):
        super().__init__()
        self._vt = 0.0
        self.inflight = 0  # real-thread jobs outstanding: virtual time is frozen while > 0
        self.rng = random.Random(seed)
        self.jitter = jitter  # timers are perturbed by U[0, jitter): coinciding timers fire in either order
        self.cpu = cpu  # each loop iteration costs U[0, cpu) of virtual time
        self.horizon = horizon
        self.max_steps = max_steps
        self.steps = 0
        self.time_jumps = 0
        self.thread_jobs = 0
        self.livelock = livelock  # iterations allowed at one virtual instant without observable progress (the engine resets
        # _same_t on every trace record): the library's own bounded spin is 1000 zero-delay polls per in-handler await
        self._same_t = 0
        self._last_t = 0.0

    # -- clock -----------------------------------------------------------------------------
    def time(self) -> float:
        return self._vt

    def advance(self, d: float) -> None:
        """A blocking (sync) piece of user code took d seconds: the clock moves inside a callback."""
        self._vt += d

    def call_at(self, when, callback, *args, context=None):
        if self.jitter:
            when = when + self.rng.random() * self.jitter
        return super().call_at(when, callback, *args, context=context)

    # -- real threads ----------------------------------------------------------------------
    def job_started(self) -> None:
        self.inflight += 1
        self.thread_jobs += 1

    def job_finished(self, *_a) -> None:
        self.inflight -= 1

    def run_in_executor(self, executor, func, *args):
        fut = super().run_in_executor(executor, func, *args)
        self.job_started()
        fut.add_done_callback(self.job_finished)
        return fut

    async def shutdown_default_executor(self, timeout=None):
        self.job_started()
        try:
            return await super().shutdown_default_executor(timeout)
        finally:
            self.job_finished()

    # -- scheduling ------------------------------------------------------------------------
    def _run_once(self):
        self.steps += 1
        if self.steps > self.max_steps:
            raise Hang('steps', f'iteration budget {self.max_steps} exhausted at vt={self._vt:.6f}')
        if self._vt == self._last_t:
            self._same_t += 1
            if self._same_t > self.livelock and self.inflight == 0:
                raise Hang('livelock', f'{self._same_t} loop iterations without the virtual clock moving at vt={self._vt:.6f}')
        else:
            self._last_t = self._vt
            self._same_t = 0
        sched = self._scheduled
        while sched and sched[0]._cancelled:
            h = heapq.heappop(sched)
            h._scheduled = False
            self._timer_cancelled_count -= 1
        if not self._ready and not self._stopping and self.inflight == 0:
            if sched:
                nxt = sched[0]._when
                if nxt > self._vt:
                    self._vt = nxt
                    self.time_jumps += 1
                if self._vt > self.horizon:
                    raise Hang('horizon', f'virtual horizon {self.horizon} passed')
            else:
                raise Hang('deadlock', f'no runnable task, no timer, no thread job at vt={self._vt:.6f}')
        elif self.cpu:
            self._vt += self.rng.random() * self.cpu
        super()._run_once()


_patched = False


def patch_threads() -> None:
    """Count anyio worker-thread jobs as in-flight so the virtual clock waits for them."""
    global _patched
    if _patched:
        return
    _patched = True
    import anyio.to_thread as tt

    orig = tt.run_sync

    async def run_sync(func, *args, **kw):
        loop = asyncio.get_running_loop()
        is_v = isinstance(loop, VLoop)
        if is_v:
            loop.job_started()
        try:
            return await orig(func, *args, **kw)
        finally:
            if is_v:
                loop.job_finished()

    tt.run_sync = run_sync


def hard_close(loop: asyncio.AbstractEventLoop, step_cap: int = 20000) -> int:
    """Cancel whatever is left on the loop, give it a bounded number of iterations, close it.

    Returns the number of tasks that were still not done after the bounded drain."""
    left = 0
    try:
        tasks = [t for t in asyncio.all_tasks(loop) if not t.done()]
        for t in tasks:
            t._log_destroy_pending = False  # type: ignore[attr-defined]
            try:
                t.cancel()
            except RecursionError:
                pass  # (a runaway program's chain of tasks awaiting tasks, deeper than the interpreter's recursion limit)
        if tasks and isinstance(loop, VLoop):
            loop.max_steps = loop.steps + step_cap
            loop._same_t = 0
            loop.livelock = step_cap
            loop.horizon = loop._vt + 50.0

            async def _drain():
                await asyncio.wait(tasks, timeout=10.0)

            try:
                loop.run_until_complete(_drain())
            except BaseException:
                pass
        for t in tasks:
            if not t.done():
                left += 1
            elif not t.cancelled():
                try:
                    t.exception()
                except BaseException:
                    pass
    finally:
        try:
            loop.call_exception_handler = lambda ctx: None  # type: ignore[method-assign]
            loop.close()
        except BaseException:
            pass
        asyncio.set_event_loop(None)
    return left
