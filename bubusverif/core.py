"""Family / check plumbing shared by every property.

A *family* is a deterministic, seeded stream of cases plus a way to execute one case against the
real library and judge it.  A *check* (one per property) names the families it runs, how many cases
per tier, and the floors on non-vacuous oracle evaluations below which the run is inconclusive.
"""
from __future__ import annotations

import json
import random
from dataclasses import dataclass, field
from typing import Any, Callable, Iterator


@dataclass
class Result:
    violations: list = field(default_factory=list)  # [{'prop','clause','mech','w'}]
    counters: dict = field(default_factory=dict)
    fingerprint: str = ''
    nontrivial: bool = False
    inconclusive: str | None = None  # e.g. 'watchdog'
    sample: Any = None


class Family:
    name = 'family'
    props: tuple = ()

    def cases(self, seed: int, tier: str, prop: str) -> Iterator[dict]:
        raise NotImplementedError

    def execute(self, case: dict, prop: str) -> Result:
        raise NotImplementedError


class ScenarioFamily(Family):
    """Random / directed bus scenarios run through engine.run_scenario and judged by oracles.py."""

    def __init__(self, name: str, props, make: Callable[[random.Random, int], dict | None], n_quick: int, n_thorough: int, nontrivial_keys: dict | None = None, workdir: bool = False):
        self.name, self.props, self.make = name, tuple(props), make
        self.n = {'quick': n_quick, 'thorough': n_thorough}
        self.nontrivial_keys = nontrivial_keys or {}
        self.workdir = workdir

    def cases(self, seed, tier, prop):
        n = self.n[tier]
        for i in range(n):
            rng = random.Random(f'{self.name}/{seed}/{i}')
            sc = self.make(rng, i)
            if sc is None:
                return
            yield {'family': self.name, 'i': i, 'scenario': sc}

    def execute(self, case, prop):
        from . import engine, oracles
        from .run import WORK

        sc = case['scenario']
        tr, final, meta = engine.run_scenario(sc, workdir=WORK if self.workdir else None)
        also = ALSO.get(prop, ())
        ix = oracles.evaluate(sc, tr, final, meta, [prop] + [p for p in also if p in self.props or True])
        engine.maybe_gc()
        res = Result()
        res.violations = []
        for v in ix.V:
            if v['prop'] == prop:
                res.violations.append(v)
            elif v['prop'] in also:  # a clause of `prop` that is decided by another property's oracle on this workload
                res.violations.append({'prop': prop, 'clause': f"{v['prop']}:{v['clause']}", 'mech': v['mech'], 'w': v['w']})
        res.counters = dict(ix.C)
        res.counters['records'] = len(tr)
        res.fingerprint = ix.fingerprint()
        keys = NONTRIVIAL.get(prop, ())
        res.nontrivial = any(ix.C.get(k, 0) > 0 for k in keys)
        if meta.get('hang') or meta.get('abort'):
            res.counters['hang_' + str(meta.get('hang') or meta.get('abort'))] = 1
        res.sample = {'family': self.name, 'scenario': sc, 'trace_len': len(tr), 'counters': {k: v for k, v in ix.C.items()},
                      'trace_head': [{k: v for k, v in r.items() if k not in ('snap', 'hl', 'oid', 'before')} for r in tr[:25]]}
        return res


# clauses of one property that are decided by another property's oracle on the same trace
# (C13: 'eviction never changes what gets processed: still handled exactly once and can still be awaited';
#  C11: 'the other handlers of the event and all later events still run exactly once')
ALSO = {'C13': ('C01', 'C03'), 'C11': ('C01',)}

# counter keys that make a scenario non-trivial for a property (>=1 non-vacuous oracle evaluation)
NONTRIVIAL = {
    'C01': ('c01_deliveries',),
    'C02': ('c02_pairs',),
    'C03': ('c03_awaits',),
    'C04': ('c04_awaits',),
    'C05': ('c05_awaits_with_backlog',),
    'C06': ('c06_overlap_checks',),
    'C07': ('c07_forwarded_events',),
    'C08': ('c08_reobservations',),
    'C09': ('c09_events',),
    'C10': ('c10_timeouts_fired',),
    'C11': ('c11_raises', 'c11_returned_exceptions'),
    'C13': ('c13_evictions',),
    'C14': ('c14_rejections',),
    'C15': ('c15_accepted_before_call',),
    'C16': ('c16_stops', 'c16_runloop_cancels', 'c16_runner_exits'),
    'C17': ('c17_lines',),
    'C18': ('c18_expects',),
}


@dataclass
class Check:
    prop: str
    level: str
    families: list  # family names
    floors: dict  # counter -> {'quick': n, 'thorough': n}
    rule: str
    technique: str
    assumptions: list = field(default_factory=list)


def dumps(x) -> str:
    return json.dumps(x, default=str, sort_keys=True)
