"""Fault enumeration: a base scenario is run once without the fault to collect the distinct virtual
instants at which anything was recorded; the fault (stop(), run-loop cancellation, handler timeout,
expect cancellation) is then placed at every instant -eps, +eps and at every midpoint.  That turns
"for every point at which the fault arrives" into a finite, complete enumeration per base scenario.
"""
from __future__ import annotations

import copy
import random

from .core import ScenarioFamily

EPS_T = 1e-5


def instants_of(tr: list, lo: float = 0.0) -> list:
    q = next((r['seq'] for r in tr if r['k'] == 'quiet'), 10**12)
    ts = sorted({round(r['vt'], 9) for r in tr if r['seq'] < q and r['vt'] >= lo})
    pts = set()
    for i, t in enumerate(ts):
        pts.add(round(max(0.0, t - EPS_T), 9))
        pts.add(round(t + EPS_T, 9))
        pts.add(round(t, 9))  # the exact coincidence (fault timer and program timer due at the same instant: either may fire first)
        if i + 1 < len(ts) and ts[i + 1] - t > 4 * EPS_T:
            pts.add(round((t + ts[i + 1]) / 2, 9))
    if ts:
        pts.add(round(ts[-1] + 0.05, 9))
        pts.add(round(ts[-1] + 0.2, 9))
    return sorted(pts)


class EnumFamily(ScenarioFamily):
    def __init__(self, name, props, make_base, derive, n_quick, n_thorough, cap_quick=40, cap_thorough=400, workdir=False):
        super().__init__(name, props, make_base, n_quick, n_thorough, workdir=workdir)
        self.derive = derive
        self.cap = {'quick': cap_quick, 'thorough': cap_thorough}

    def cases(self, seed, tier, prop):
        from . import engine

        for i in range(self.n[tier]):
            rng = random.Random(f'{self.name}/{seed}/{i}')
            base = self.make(rng, i)
            if base is None:
                return
            base.pop('loop', None)  # exact placement: no timer jitter
            tr, _final, _meta = engine.run_scenario(base)
            pts = instants_of(tr)
            if len(pts) > self.cap[tier]:
                keep = sorted(rng.sample(range(len(pts)), self.cap[tier]))
                pts = [pts[k] for k in keep]
            j = 0
            for t in pts:
                for sc in self.derive(copy.deepcopy(base), t, rng):
                    j += 1
                    yield {'family': self.name, 'i': i, 'j': j, 't': t, 'scenario': sc}
