"""Seeded scenario generators.

Termination by construction: a handler registered for level-k events dispatches only events of
level > k, and '*' handlers never dispatch (a dispatching wildcard handler handles what it dispatched:
a legitimately non-terminating user program).  Delays come from a critical set built around the
constants in the library (0.1 s queue poll / stop grace, 0 = bare yield).
"""
from __future__ import annotations

import copy
import random

NT = 6
E = 1e-4
DELAYS = [0, 0, 0, 1e-3, 0.05, 0.1 - E, 0.1, 0.1 + E, 0.15, 0.3, 1.0]
SHORT = [0, 0, 1e-3, 0.05, 0.1]
ASYNC_KINDS = ['async', 'async', 'async', 'amethod', 'aclassm', 'abusm']
SYNC_KINDS = ['sync', 'smethod', 'sclassm', 'sbusm']
EXCS = ['ValueError', 'KeyError', 'RuntimeError', 'Custom', 'LoopClosed', 'NoLoop', 'OSError', 'ZeroDivisionError', 'Unhashable', 'TwoArg', 'Chained', 'Unprintable', 'StopIter', 'Falsy', 'FalsyBool']
EXCS_ALL = EXCS + ['TimeoutError']  # a user-raised TimeoutError is treated by the library as a handler timeout (cancels pending child results)

DEFAULT = dict(
    nb=(1, 3), p_par=0.0, p_fwd=0.0, p_lazy=0.3, hist=None, levels=4, p_raise=0.07, p_retexc=0.02, p_sync=0.2, p_wild=0.1,
    n_actors=(1, 3), actor_ops=(1, 5), p_redisp=0.0, p_spawn=0.0, p_busy=0.05, p_bus=0.08, modes=['fire', 'await', 'await', 'later'],
    handlers_per=(0, 1, 1, 2), prog_len=(0, 3), p_strpat=0.15, p_idle=0.0, p_explicit_parent=0.0, jitter=True, actor_await=0.5,
    cross_bus=True, exc_kinds=EXCS, p_actor_redisp=0.0, p_age=0.0, p_access=0.25,
)


def cfg(**kw):
    c = dict(DEFAULT)
    c.update(kw)
    return c


def rand_prog(rng: random.Random, c: dict, level: int, nb: int, own_bus: int, sync: bool, wild: bool):
    prog = []
    lo, hi = c['prog_len']
    for _ in range(rng.randint(lo, hi)):
        x = rng.random()
        if x < 0.30:
            if not sync:
                prog.append(['sleep', rng.choice(DELAYS)])
        elif x < 0.30 + c['p_busy']:
            prog.append(['busy', rng.choice([1e-3, 0.05, 0.12])])
        elif x < 0.80:
            if level < c['levels'] - 1 and not wild:
                tb = rng.randrange(nb) if c['cross_bus'] else own_bus
                mode = 'fire' if sync else rng.choice(c['modes'])
                pre = rng.choice([None, None, 0, 0, 1e-3, 0.05, 0.1, 0.15]) if mode == 'await' else None
                opts = {}
                if c.get('p_age') and rng.random() < c['p_age']:
                    opts['age'] = rng.choice([0.5, 5.0, 60.0])
                    opts['naive'] = rng.random() < 0.3
                if rng.random() < c.get('p_rtype', 0.1):
                    opts['rtype'] = rng.choice(['str', 'int', 'list', 'dict'])  # the event declares a result type
                if rng.random() < c['p_explicit_parent']:
                    opts['parent'] = '00000000-0000-7000-8000-%012x' % rng.randrange(1 << 40)
                elif rng.random() < c.get('p_none_parent', 0.05):
                    opts['parent'] = 'none'  # event_parent_id=None passed explicitly
                elif rng.random() < c.get('p_prebuilt', 0.06):
                    opts['prebuilt'] = True  # the object was constructed before the program started and is handed to this handler
                if rng.random() < c.get('p_unenc', 0.04):
                    # a payload field holding a live object / non-UTF-8 bytes: legal for an event, no JSON form
                    opts['payload'] = {'conn': rng.choice([{'$obj': 1}, {'$bytes': 'fffe80'}])}
                if mode == 'await' and rng.random() < c.get('p_acc', 0.05):
                    mode = 'acc'
                    opts['acc_timeout'] = rng.choice([0.02, 0.05, 0.2])
                prog.append(['disp', rng.randint(level + 1, c['levels'] - 1), tb, mode, pre, opts])
        elif x < 0.80 + c['p_bus']:
            prog.append(['bus'])
        elif x < 0.80 + c['p_bus'] + c['p_raise']:
            if not sync and rng.random() < 0.08 and 'TimeoutError' not in c['exc_kinds']:
                prog.append(['raise_cancelled', rng.choice([0, 0.01])])  # CancelledError out of the handler, nobody cancelled the handler
            else:
                prog.append(['raise', rng.choice(c['exc_kinds'])])
        elif x < 0.80 + c['p_bus'] + c['p_raise'] + c['p_retexc']:
            # (an object whose __str__ raises cannot be *returned*: the library formats return values for its debug log; raising it is fine)
            prog.append(['retexc', rng.choice([k for k in c['exc_kinds'] if k not in ('Unprintable', 'StopIter')])])
        elif x < 0.80 + c['p_bus'] + c['p_raise'] + c['p_retexc'] + c['p_redisp']:
            if not wild:
                prog.append(['redisp', own_bus])
        elif x < 0.80 + c['p_bus'] + c['p_raise'] + c['p_retexc'] + c['p_redisp'] + c['p_spawn']:
            if not sync and not wild and level < c['levels'] - 1:
                sub = [['sleep', rng.choice(DELAYS)], ['disp', rng.randint(level + 1, c['levels'] - 1), rng.randrange(nb), rng.choice(['fire', 'await']), None, {}]]
                if rng.random() < 0.3:
                    # a flush task: fire some work, then wait for the bus to be idle (long after the handler that created it ended)
                    sub = [['sleep', rng.choice([0.3, 1.0])], ['disp', rng.randint(level + 1, c['levels'] - 1), own_bus, 'fire', None, {}], ['idle', own_bus, rng.choice([None, 5.0])]]
                prog.append(['spawn', sub])
    if rng.random() < c.get('p_ret', 0.15) and not any(op[0] in ('raise', 'retexc', 'ret') for op in prog):
        # handlers return lists / dicts / numbers (the accessors flatten and merge them), not only strings
        prog.append(['ret', rng.choice([[1, 2], [3], [], {'a': 1}, {'b': 2, 'c': 3}, {}, 0, 7, 'text', None, [[1], [2]], {'a': {'n': 1}}])])
    return prog


def random_scenario(rng: random.Random, c: dict) -> dict:
    nb = rng.randint(*c['nb'])
    hist = c['hist']
    buses = []
    for i in range(nb):
        buses.append({'name': (f'B{i}' if rng.random() > 0.04 else f'_B{i}') if rng.random() > c.get('p_longname', 0.05) else f'B{i}_' + 'LongServiceBusName' * 9, 'par': rng.random() < c['p_par'], 'lazy': rng.random() < c['p_lazy'], 'sub': rng.random() < 0.3, 'sized': rng.random() < c.get('p_sized', 0.12),
                      'hist': (rng.choice(hist) if isinstance(hist, (list, tuple)) else hist)})
    if nb > 1 and rng.random() < c.get('p_same_name', 0.06):
        # two (or all) buses created under one requested name: the constructor warns and renames the later ones, all stay usable
        for k in rng.sample(range(nb), rng.randint(2, nb)):
            buses[k]['name'] = 'Same'
    fwd = []
    if nb > 1 and rng.random() < c['p_fwd']:
        seen = set()
        for _ in range(rng.randint(1, nb + 1)):
            a, b = rng.randrange(nb), rng.randrange(nb)
            pat = '*' if rng.random() < 0.7 else rng.randrange(c['levels'])
            if pat != '*' and rng.random() < 0.4:
                pat = f'E{pat}'  # forward registered under the type-name string instead of the class
            key = (a, b, 'w' if pat == '*' else 't')
            if (a, b) in seen and rng.random() < 0.7:
                continue  # usually one edge per (src, dst); sometimes a second route to the same bus (typed + wildcard, or twice)
            seen.add((a, b))
            fwd.append([a, b, pat])
    handlers = []
    for b in range(nb):
        for t in range(c['levels']):
            for _ in range(rng.choice(c['handlers_per'])):
                wild = rng.random() < c['p_wild']
                sync = rng.random() < c['p_sync']
                kind = rng.choice(SYNC_KINDS if sync else ASYNC_KINDS)
                pat = '*' if wild else (f'E{t}' if rng.random() < c['p_strpat'] else t)
                handlers.append({'bus': b, 'pat': pat, 'kind': kind, 'prog': rand_prog(rng, c, t, nb, b, sync, wild)})
    actors = []
    for _ in range(rng.randint(*c['n_actors'])):
        ops = []
        nd = 0
        for _ in range(rng.randint(*c['actor_ops'])):
            x = rng.random()
            if x < c['p_idle']:
                ops.append(['idle', rng.randrange(nb), rng.choice([None, None, None, 0.05, 0.5])])
            elif x < c['p_idle'] + c['p_actor_redisp'] and nd:
                ops.append(['redisp', rng.randrange(nd), rng.randrange(nb) if rng.random() < c.get('p_redisp_other', 0.0) else -1])
            elif x < c['p_idle'] + c['p_actor_redisp'] + 0.12 and nd:
                ops.append(['access' if rng.random() < c.get('p_access', 0.0) else 'await', rng.randrange(nd)])
            elif x < c['p_idle'] + c['p_actor_redisp'] + 0.24:
                ops.append(['sleep', rng.choice(DELAYS)])
            else:
                opts = {}
                if c.get('p_age') and rng.random() < c['p_age']:
                    opts['age'] = rng.choice([0.5, 5.0, 60.0])
                    opts['naive'] = rng.random() < 0.3
                if rng.random() < c.get('p_rtype', 0.1):
                    opts['rtype'] = rng.choice(['str', 'int', 'list', 'dict'])
                if rng.random() < c.get('p_unenc', 0.04):
                    opts['payload'] = {'conn': rng.choice([{'$obj': 1}, {'$bytes': 'fffe80'}])}
                ops.append(['disp', rng.randint(0, max(0, c['levels'] - 2)), rng.randrange(nb), 'await' if rng.random() < c['actor_await'] else 'fire', rng.choice(DELAYS), opts])
                nd += 1
        for k in range(nd):
            ops.append(['await', k])
        actors.append(ops)
    # fix up redisp targets (-1 => the bus the event was first dispatched to)
    for ops in actors:
        first_bus = []
        for op in ops:
            if op[0] == 'disp':
                first_bus.append(op[2])
        for op in ops:
            if op[0] == 'redisp' and op[2] == -1:
                op[2] = first_bus[op[1]]
    sc = {'seed': rng.randrange(1 << 30), 'buses': buses, 'fwd': fwd, 'handlers': handlers, 'actors': actors}
    if c['jitter']:
        x = rng.random()
        if x < 0.4:
            sc['loop'] = {'jitter': 1e-7}  # coinciding timers fire in either order
        elif x < 0.55:
            sc['loop'] = {'jitter': 1e-7, 'cpu': rng.choice([1e-6, 2e-5, 1e-4])}  # every loop iteration costs a little time
    return sc


# ---------------------------------------------------------------------------------------------
# directed / special-purpose generators
def recursion_scenario(rng: random.Random, i: int) -> dict:
    """Explicit self-recursion 0..5 deep (a handler dispatching an event of its own type), awaited or
    fire-and-forget, with bystander '*' handlers. Depth > 2 is refused by the library's guard (F2c)."""
    nb = rng.choice([1, 1, 2])
    limit = i % 6
    mode = rng.choice(['fire', 'await'])
    buses = [{'name': f'B{k}', 'par': False, 'lazy': False, 'hist': None} for k in range(nb)]
    hs = [{'bus': 0, 'pat': 0, 'kind': rng.choice(['async', 'amethod'] if mode == 'await' else ['async', 'sync']), 'prog': [['sleep', rng.choice(SHORT)], ['recurse', limit, 0, mode]]}]
    if mode == 'fire' and hs[0]['kind'] == 'sync':
        hs[0]['prog'] = [['recurse', limit, 0, 'fire']]
    if rng.random() < 0.6:
        hs.append({'bus': 0, 'pat': '*', 'kind': 'async', 'prog': [['sleep', rng.choice(SHORT)]]})
    if rng.random() < 0.5:
        hs.append({'bus': 0, 'pat': 0, 'kind': 'async', 'prog': [['sleep', rng.choice(SHORT)]]})
    if nb == 2:
        hs.append({'bus': 1, 'pat': 1, 'kind': 'async', 'prog': []})
    actors = [[['disp', 0, 0, rng.choice(['await', 'fire']), rng.choice(SHORT), {}], ['await', 0], ['idle', 0, None]]]
    if rng.random() < 0.5:
        actors.append([['sleep', rng.choice(SHORT)], ['disp', 1 if nb == 2 else 0, nb - 1, 'await', 0, {}]])
    return {'seed': rng.randrange(1 << 30), 'buses': buses, 'fwd': [], 'handlers': hs, 'actors': actors, 'limit': limit}


def capacity_scenario(rng: random.Random, i: int) -> dict:
    """Fill the queue (50) / backlog limit (100) from actors and from inside handlers."""
    hist = rng.choice([None, 5, 20, 50, 200])
    nb = rng.choice([1, 2])
    buses = [{'name': f'B{k}', 'par': rng.random() < 0.2, 'lazy': False, 'hist': hist if k == 0 else rng.choice([None, 50])} for k in range(nb)]
    hs = []
    n_many = rng.choice([30, 60, 120])
    target = rng.randrange(nb)
    hs.append({'bus': 0, 'pat': 0, 'kind': rng.choice(['async', 'sync']), 'prog': [['many', 1, target, n_many]] + ([['sleep', rng.choice(SHORT)]] if rng.random() < 0.5 else [])})
    hs.append({'bus': target, 'pat': 1, 'kind': 'async', 'prog': [['sleep', rng.choice([0, 0, 1e-3, 0.05])]] if rng.random() < 0.7 else []})
    if rng.random() < 0.4:
        hs.append({'bus': 0, 'pat': 0, 'kind': 'async', 'prog': [['sleep', 0.05], ['disp', 2, target, 'await', None, {}]]})
        hs.append({'bus': target, 'pat': 2, 'kind': 'async', 'prog': []})
    actors = []
    a = [['disp', 0, 0, rng.choice(['await', 'fire']), rng.choice(SHORT), {}]]
    if rng.random() < 0.6:
        a.append(['many', 1, target, rng.choice([40, 70, 130])])
    a.append(['await', 0])
    actors.append(a)
    if rng.random() < 0.5:
        actors.append([['sleep', rng.choice(SHORT)], ['many', 1, target, rng.choice([20, 60])], ['disp', 0, 0, 'await', 0, {}]])
    if rng.random() < 0.3:
        actors.append([['sleep', rng.choice([0.05, 0.3])], ['stop', target, rng.choice([None, 0])], ['disp', 1, target, 'fire', 0, {}], ['many', 1, target, 3]])
    if rng.random() < 0.5:
        # caller-supplied events whose path already names the bus (replayed from a log), and re-dispatch of a rejected / accepted event
        actors.append([['sleep', rng.choice([0, 0.05, 0.5])], ['disp', 1, target, rng.choice(['fire', 'await']), rng.choice(SHORT), {'prepath': [target]}],
                       ['disp', 2 if len(hs) > 2 else 1, target, 'await', 0, {'prepath': [target] + ([0] if target else [])}], ['redisp', 0, target], ['sleep', 1.0], ['redisp_rejected', target]])
    actors[0].append(['sleep', 1.5])
    actors[0].append(['redisp_rejected', target])
    return {'seed': rng.randrange(1 << 30), 'buses': buses, 'fwd': [], 'handlers': hs, 'actors': actors, 'no_idle_probe': False}


def spawn_scenario(rng: random.Random, i: int) -> dict:
    if rng.random() < 0.5:
        return random_scenario(rng, cfg(p_spawn=0.25, nb=(1, 3)))
    sc = random_scenario(rng, cfg(p_spawn=0.25, nb=(1, 3), levels=2))
    if True:
        # a fire-and-forget task that OUTLIVES the handler that created it and only then - everything idle, the lock free - dispatches
        # and awaits an event; long afterwards ordinary two-bus traffic: a handler on one bus awaits a slow child while an unrelated
        # event arrives on another bus. Whatever the stale task did to shared state must not show then.
        if len(sc['buses']) < 2:
            sc['buses'].append({'name': 'B9', 'par': False, 'lazy': False, 'sub': False, 'hist': None})
        nb = len(sc['buses'])
        a, b = rng.sample(range(nb), 2)
        t0 = rng.choice([3.0, 5.0])
        sc['handlers'].append({'bus': a, 'pat': 2, 'kind': 'async', 'prog': [['spawn', [['sleep', rng.choice([0.3, 1.0])], ['disp', 3, rng.choice([a, b]), 'await', None, {}]]]]})
        sc['handlers'].append({'bus': a, 'pat': 3, 'kind': 'async', 'prog': [['sleep', rng.choice([0, 0.05])]]})
        sc['handlers'].append({'bus': b, 'pat': 3, 'kind': 'async', 'prog': [['sleep', rng.choice([0, 0.05])]]})
        sc['handlers'].append({'bus': a, 'pat': 4, 'kind': 'async', 'prog': [['disp', 5, a, 'await', None, {}]]})
        sc['handlers'].append({'bus': a, 'pat': 5, 'kind': 'async', 'prog': [['sleep', 0.4]]})
        sc['handlers'].append({'bus': b, 'pat': 5, 'kind': 'async', 'prog': [['sleep', 0.05]]})
        sc['actors'].append([['disp', 2, a, 'await', 0, {}], ['sleep', t0], ['disp', 4, a, 'await', 0, {}]])
        sc['actors'].append([['sleep', t0 + rng.choice([0.1, 0.2])], ['disp', 5, b, 'await', 0, {}]])
    return sc


def dupfwd_scenario(rng: random.Random, i: int) -> dict:
    """Two forward registrations from the same source to the same target (F17 reach)."""
    sc = random_scenario(rng, cfg(nb=(2, 3), p_fwd=1.0))
    if sc['fwd']:
        a, b, p = rng.choice(sc['fwd'])
        sc['fwd'].append([a, b, '*'])
    else:
        sc['fwd'] = [[0, 1, '*'], [0, 1, '*']]
    return sc


def graph_scenario(n: int, mask: int, entry: int, rng: random.Random, traffic: bool) -> dict:
    """Forwarding digraph on n buses given by the bits of mask (edge a->b is bit a*n+b)."""
    buses = [{'name': f'B{k}', 'par': False, 'lazy': rng.random() < 0.3, 'hist': None, 'sub': rng.random() < 0.3} for k in range(n)]
    fwd = [[a, b, '*' if rng.random() < 0.75 else 0] for a in range(n) for b in range(n) if mask >> (a * n + b) & 1]
    hs = []
    for b in range(n):
        hs.append({'bus': b, 'pat': 0, 'kind': rng.choice(['async', 'sync', 'amethod']), 'prog': [['sleep', rng.choice(SHORT)]] if rng.random() < 0.5 else [['bus']]})
        if traffic and rng.random() < 0.6:
            hs.append({'bus': b, 'pat': 0, 'kind': 'async', 'prog': [['disp', 1, rng.randrange(n), rng.choice(['await', 'fire']), rng.choice([None, 0, 0.05]), {}]]})
            hs.append({'bus': b, 'pat': 1, 'kind': 'async', 'prog': [['sleep', rng.choice(SHORT)]]})
    actors = [[['disp', 0, entry, rng.choice(['await', 'fire']), rng.choice(SHORT), {}], ['await', 0]]]
    if traffic:
        actors.append([['sleep', rng.choice(SHORT)], ['disp', 0, rng.randrange(n), 'fire', 0, {}], ['disp', 1, rng.randrange(n), 'await', 0, {}]])
    if n >= 3 and rng.random() < 0.2:
        # several buses created under one requested name (the library renames all but the first): loop prevention and the path are
        # name-based, so the names they end up with must still tell them apart
        for k in rng.sample(range(n), rng.randint(3, n)):
            buses[k]['name'] = 'Same'
    sc = {'seed': rng.randrange(1 << 30), 'buses': buses, 'fwd': fwd, 'handlers': hs, 'actors': actors, 'cap': 60.0}
    return sc


def stop_base(rng: random.Random, i: int) -> dict:
    """Base scenarios for stop()/cancel placement: backlog, sleeping handlers, inline awaits, sync-busy
    handlers, handlers that dispatch late (during stop()'s grace period), a second bus whose handler
    awaits a child afterwards."""
    c = cfg(nb=(1, 3), levels=3, p_lazy=0.2, p_raise=0.03, p_busy=0.1, prog_len=(1, 4), handlers_per=(1, 1, 2), n_actors=(2, 3), actor_ops=(2, 6), actor_await=0.3, jitter=False, p_wild=0.05, p_par=0.3)
    sc = random_scenario(rng, c)
    if len(sc['buses']) == 3 and rng.random() < 0.7:
        # a long in-handler await on bus 0 while the other two buses each receive work: their run loops dequeue it and
        # block on the global lock, which is where stop() / cancellation of one of them can arrive
        sc['handlers'].append({'bus': 0, 'pat': 1, 'kind': 'async', 'prog': [['disp', 2, 0, 'await', None, {}]]})
        sc['handlers'].append({'bus': 0, 'pat': 2, 'kind': 'async', 'prog': [['sleep', rng.choice([0.3, 1.0])]]})
        sc['actors'].append([['disp', 1, 0, 'fire', rng.choice([0.05, 0.15]), {}], ['disp', 0, 1, 'fire', rng.choice([0, 0.05]), {}], ['disp', 0, 2, 'fire', 0, {}], ['disp', 1, 1, 'fire', 0.1, {}], ['disp', 1, 2, 'fire', 0, {}]])
    # make sure some handler dispatches late and some handler on another bus awaits later
    nb = len(sc['buses'])
    sc['handlers'].append({'bus': 0, 'pat': 0, 'kind': 'async', 'prog': [['sleep', rng.choice([0.05, 0.1, 0.15, 0.3])], ['disp', 2, 0, rng.choice(['fire', 'await']), None, {}], ['sleep', 0.05], ['disp', 2, 0, 'fire', None, {}]]})
    if nb > 1:
        sc['handlers'].append({'bus': 1, 'pat': 1, 'kind': 'async', 'prog': [['sleep', rng.choice([0.15, 0.3, 1.0])], ['disp', 2, 1, 'await', rng.choice([None, 0]), {}]]})
    sc['actors'].append([['many', 0, 0, rng.choice([2, 4, 8])]])
    if nb > 1 and rng.random() < 0.5:
        # bus 0's run loop -> handler awaiting an event on a parallel bus whose FIRST handler just sleeps (and is slow to unwind)
        # while a later sibling is inside an await of its own, processing an event of bus 0 with several handlers: whatever
        # cancels bus 0's run loop must reach both siblings at once
        sc['buses'][1]['par'] = True
        sc['handlers'].insert(0, {'bus': 1, 'pat': 4, 'kind': 'async', 'prog': [['sleep', 2.0]], 'cleanup': rng.choice([0.4, 1.0])})
        sc['handlers'].append({'bus': 1, 'pat': 4, 'kind': 'async', 'prog': [['sleep', rng.choice([0, 0.05])], ['disp', 5, 0, 'await', None, {}], ['disp', 5, 0, 'await', None, {}]]})
        sc['handlers'].append({'bus': 0, 'pat': 5, 'kind': 'async', 'prog': [['sleep', rng.choice([0.2, 0.3])]]})
        sc['handlers'].append({'bus': 0, 'pat': 5, 'kind': 'async', 'prog': [['sleep', 0.05]]})
        sc['handlers'].append({'bus': 0, 'pat': 0, 'kind': 'async', 'prog': [['disp', 4, 1, 'await', rng.choice([None, 0]), {}]]})
    if nb > 1 and rng.random() < 0.3:
        # a cycle in the child graph: a handler of the child hands its PARENT event on to another bus, whose slow handler is
        # mid-flight when the stop / cancellation arrives
        ob = rng.randrange(1, nb)
        sc['handlers'].append({'bus': 0, 'pat': 4, 'kind': 'async', 'prog': [['disp', 5, 0, rng.choice(['fire', 'await']), None, {}]]})
        sc['handlers'].append({'bus': 0, 'pat': 5, 'kind': rng.choice(['async', 'sync']), 'prog': [['redisp_parent', ob]]})
        sc['handlers'].append({'bus': ob, 'pat': 4, 'kind': 'async', 'prog': [['sleep', rng.choice([0.5, 1.0])]]})
        sc['actors'].append([['sleep', rng.choice([0, 0.1])], ['disp', 4, 0, 'fire', 0, {}]])
    for h in sc['handlers']:
        if h['kind'][0] == 'a' and rng.random() < 0.3:
            h['cleanup'] = rng.choice([0.15, 0.4, 1.0])  # slow to react to cancellation: stop() must not wait for that
    return sc


def stop_derive(sc: dict, t: float, rng: random.Random):
    nb = len(sc['buses'])
    b = rng.randrange(nb)
    timeout = rng.choice([None, None, 0, 0.05, 0.3])
    s1 = sc
    clear = rng.random() < 0.3  # stop(clear=True): also drops the bus's history and handlers
    after = []
    if rng.random() < 0.35:
        # tear-down code that, some time after stop() returned, also waits for the (stopped) bus to be idle: bounded, and it must not
        # bring the bus back to life
        after = [['sleep', rng.choice([0.02, 0.2, 0.5])], ['idle', b, rng.choice([0.05, 0.5])]]
    before = []
    if after and rng.random() < 0.6:
        # ... and in between offers the stopped bus an event that was completed earlier (refused: the bus is stopped)
        before = [['disp', 0, b, 'await', 0, {}]]
        after = [after[0], ['redisp', 0, b]] + [['idle', b, None]]
    s1['actors'] = s1['actors'] + [before + [['sleep', t], ['stop', b, timeout, clear]] + after]
    if not after and rng.random() < 0.15:
        # EVERY bus is stopped with clear=True (handlers that need time to unwind may still be running), then a bus that did not
        # exist before is created and used at once
        s1['buses'] = s1['buses'] + [{'name': 'Bnew', 'par': False, 'lazy': True, 'hist': None}]
        s1['handlers'] = s1['handlers'] + [{'bus': nb, 'pat': 0, 'kind': 'async', 'prog': [['sleep', 0.05]]}]
        for h_ in s1['handlers']:
            if h_['kind'][0] == 'a' and 'cleanup' not in h_ and rng.random() < 0.5:
                h_['cleanup'] = rng.choice([0.15, 0.4])
        s1['actors'][-1] = [['sleep', t]] + [['stop', k, 0, True] for k in range(nb)] + [['disp', 0, nb, 'await', 0, {}]]
        s1['no_idle_probe'] = True
        yield s1
        return
    x = rng.random()
    if x < 0.15:  # a second, concurrent or slightly later stop() of the same bus
        s1['actors'] = s1['actors'] + [[['sleep', t + rng.choice([0.0, 0.0, 0.02, 0.2])], ['stop', b, rng.choice([None, 0, 0.05]), rng.random() < 0.3]]]
    elif x < 0.3 and nb > 1:  # another bus stopped as well
        s1['actors'] = s1['actors'] + [[['sleep', t + rng.choice([0.0, 0.02, 0.2])], ['stop', (b + 1) % nb, rng.choice([None, 0, 0.05]), rng.random() < 0.3]]]
    s1['no_idle_probe'] = True
    yield s1


def cancel_derive(sc: dict, t: float, rng: random.Random):
    nb = len(sc['buses'])
    b = rng.randrange(nb)
    # (the harness waits long; the oracle's bound is 1 virtual second plus the time the handlers cancelled by it needed to unwind)
    if rng.random() < 0.5:
        # the cancelled bus keeps a write-ahead log: the append after each event is a chain of thread hand-offs (open, write, close)
        # during which no virtual time passes - the cancellation is placed k loop iterations into the instant so that it lands inside
        sc['buses'][b]['wal'] = True
    base_actors = sc['actors']
    wait = 1.0 if not any(h.get('cleanup') for h in sc['handlers']) else 40.0
    sc['actors'] = base_actors + [[['sleep', t], ['cancel_runloop', b, wait, 0]]]
    sc['no_idle_probe'] = True
    yield sc
    if sc['buses'][b].get('wal'):
        sc2 = copy.deepcopy(sc)
        sc2['actors'] = copy.deepcopy(base_actors) + [[['sleep', t], ['cancel_runloop', b, wait, rng.choice([3, 5, 8, 12, 20])]]]
        yield sc2


def retry_handler_base(rng: random.Random, i: int) -> dict:
    """Event handlers decorated with @retry(semaphore_limit=1) that share a named semaphore - with each other (sibling handlers on a
    parallel bus), with a handler of a child event, and with plain code occupying the slot: a handler whose timeout fires while it
    still waits for its slot never runs its body."""
    nb = rng.choice([1, 2])
    buses = [{'name': f'B{k}', 'par': (k == 0 and rng.random() < 0.7), 'lazy': False, 'hist': None} for k in range(nb)]
    hs = []
    shape = rng.choice(['siblings', 'occupied', 'nested'])
    if shape == 'siblings':
        buses[0]['par'] = True
        for _ in range(rng.randint(2, 3)):
            hs.append({'bus': 0, 'pat': 0, 'kind': 'async', 'prog': [['sleep', rng.choice([0.2, 0.3])]], 'retry': {'name': 'a', 'limit': 1}})
        hs.append({'bus': 0, 'pat': 0, 'kind': 'async', 'prog': [['sleep', 0.05]]})
        actors = [[['disp', 0, 0, 'await', 0, {}]]]
    elif shape == 'occupied':
        hs.append({'bus': 0, 'pat': 0, 'kind': 'async', 'prog': [['sleep', 0.1], ['disp', 2, nb - 1, 'fire', None, {}]], 'retry': {'name': 'a', 'limit': 1}})
        hs.append({'bus': 0, 'pat': 0, 'kind': rng.choice(['async', 'sync']), 'prog': []})
        hs.append({'bus': nb - 1, 'pat': 2, 'kind': 'async', 'prog': [['sleep', 0.05]]})
        actors = [[['sleep', 0.05], ['disp', 0, 0, 'await', 0, {}]], [['occupy', 'a', rng.choice([0.3, 0.6])]]]
    else:
        hs.append({'bus': 0, 'pat': 0, 'kind': 'async', 'prog': [['sleep', 0.05], ['disp', 1, nb - 1, 'await', None, {}], ['sleep', 0.05]]})
        hs.append({'bus': nb - 1, 'pat': 1, 'kind': 'async', 'prog': [['sleep', 0.1]], 'retry': {'name': 'a', 'limit': 1}})
        hs.append({'bus': nb - 1, 'pat': 1, 'kind': 'async', 'prog': [['sleep', 0.05]]})
        actors = [[['disp', 0, 0, 'await', 0, {}]], [['sleep', 0.02], ['occupy', 'a', rng.choice([0.3, 0.6])]]]
    actors.append([['sleep', 1.5], ['disp', 2, 0, 'await', 0, {}]])
    hs.append({'bus': 0, 'pat': 2, 'kind': 'async', 'prog': [['sleep', 0.05]], 'retry': {'name': 'a', 'limit': 1}})
    return {'seed': rng.randrange(1 << 30), 'buses': buses, 'fwd': [], 'handlers': hs, 'actors': actors}


def retry_handler_derive(sc: dict, t: float, rng: random.Random):
    for a in sc['actors']:
        for op in a:
            if op[0] == 'disp' and op[1] == 0:
                op[5] = {'timeout': t}
    yield sc


def cyclic_timeout_base(rng: random.Random, i: int) -> dict:
    """One narrow shape with a circular child graph under a handler timeout: the root's handler awaits a child whose first handler
    hands the ROOT on to a second bus (the root becomes a child of its own child) and whose second handler is slow."""
    buses = [{'name': 'B0', 'par': False, 'lazy': False, 'hist': None}, {'name': 'B1', 'par': rng.random() < 0.3, 'lazy': False, 'hist': None}]
    hs = [
        {'bus': 0, 'pat': 0, 'kind': 'async', 'prog': [['sleep', rng.choice([0, 0.05])], ['disp', 1, 0, 'await', None, {}], ['sleep', 0.2]]},
        {'bus': 0, 'pat': 1, 'kind': rng.choice(['sync', 'async']), 'prog': [['redisp_parent', 1]]},
        {'bus': 0, 'pat': 1, 'kind': 'async', 'prog': [['sleep', rng.choice([0.2, 0.3])]]},
        {'bus': 0, 'pat': 1, 'kind': 'async', 'prog': [['sleep', 0.05]]},
        {'bus': 1, 'pat': 0, 'kind': 'async', 'prog': [['sleep', 0.05]]},
    ]
    actors = [[['disp', 0, 0, 'await', 0, {}]], [['sleep', 1.5], ['disp', 1, 0, 'await', 0, {}]]]
    return {'seed': rng.randrange(1 << 30), 'buses': buses, 'fwd': [], 'handlers': hs, 'actors': actors}


def cyclic_timeout_derive(sc: dict, t: float, rng: random.Random):
    sc['actors'][0][0][5] = {'timeout': t}
    yield sc


def walcancel_base(rng: random.Random, i: int) -> dict:
    """Buses that keep a write-ahead log and process fire-and-forget events in their OWN run loops (no inline drains): every event's
    completion instant is followed, at the same virtual instant, by the run loop's WAL append - several thread hand-offs long."""
    nb = rng.choice([1, 2])
    buses = [{'name': f'B{k}', 'par': rng.random() < 0.3, 'lazy': False, 'hist': None, 'wal': rng.choice([True, True, 'nested'])} for k in range(nb)]
    hs = []
    for b in range(nb):
        for t in (0, 1):
            for _ in range(rng.choice([1, 1, 2])):
                if rng.random() < 0.8:
                    hs.append({'bus': b, 'pat': t, 'kind': 'async', 'prog': [['sleep', rng.choice([0.05, 0.1, 0.3])]]})
                else:
                    hs.append({'bus': b, 'pat': t, 'kind': 'sync', 'prog': []})
    fwd = [[0, 1, '*']] if nb == 2 and rng.random() < 0.5 else []
    actors = [[['disp', rng.choice([0, 1]), rng.randrange(nb), 'fire', rng.choice([0, 0.05, 0.1]), {}] for _ in range(rng.randint(2, 4))]]
    return {'seed': rng.randrange(1 << 30), 'buses': buses, 'fwd': fwd, 'handlers': hs, 'actors': actors}


def walcancel_derive(sc: dict, t: float, rng: random.Random):
    """The run-loop task of one bus is cancelled k loop iterations into instant t (so: inside whatever multi-step work starts there)."""
    b = rng.randrange(len(sc['buses']))
    base_actors = sc['actors']
    sc['no_idle_probe'] = True
    for k in (rng.choice([3, 5]), rng.choice([8, 12, 20])):
        sc2 = copy.deepcopy(sc)
        sc2['actors'] = copy.deepcopy(base_actors) + [[['sleep', t], ['cancel_runloop', b, 1.0, k]]]
        yield sc2


def timeout_base(rng: random.Random, i: int) -> dict:
    """parent -> child -> grandchild shapes, fire/await mixes, several handlers per event, one later event."""
    c = cfg(nb=(1, 2), levels=4, p_lazy=0.0, p_raise=0.08, p_retexc=0.03, p_busy=0.0, p_bus=0.0, p_sync=0.1, p_wild=0.0, prog_len=(1, 4), handlers_per=(1, 1, 2), n_actors=(1, 1), actor_ops=(1, 1), jitter=False, p_strpat=0.0,
            p_par=0.2, exc_kinds=EXCS + ['TimeoutError', 'TimeoutError', 'TimeoutError'])
    sc = random_scenario(rng, c)
    nb = len(sc['buses'])
    for h in sc['handlers']:
        if h['kind'][0] == 'a' and rng.random() < 0.25:
            h['cleanup'] = rng.choice([0.01, 0.15, 0.4])  # needs this long to unwind after being cancelled
        if h['kind'][0] == 'a' and rng.random() < 0.2:
            # dispatches an event from its except-CancelledError block - of a type strictly BELOW its own in the dispatch order (programs
            # dispatch downwards only): a cancelled handler whose clean-up re-creates the very kind of event whose handlers get
            # cancelled is a program that never ends
            t_own = h['pat'] if isinstance(h['pat'], int) else (int(h['pat'][1:]) if isinstance(h['pat'], str) and h['pat'][1:].isdigit() else 3)
            if t_own < 3:
                h['cleanup_disp'] = [rng.randrange(max(2, t_own + 1), 4), rng.randrange(nb)]
    # the root is the first actor's first dispatch: make it level 0 on bus 0, awaited, then a later event + idle
    sc['actors'] = [[['disp', 0, 0, 'await', 0, {}]], [['sleep', rng.choice([0.0, 0.05, 0.3])], ['disp', 1, rng.randrange(nb), 'await', 0, {}]]]
    # make sure the root has at least one awaiting handler with a child that itself awaits a grandchild
    sc['handlers'].insert(0, {'bus': 0, 'pat': 0, 'kind': 'async', 'prog': [['sleep', rng.choice([0.05, 0.1])], ['disp', 1, rng.randrange(nb), 'fire', None, {}], ['disp', 1, rng.randrange(nb), 'await', rng.choice([None, 0, 0.05]), {}], ['sleep', 0.1]], 'cleanup': rng.choice([0, 0, 0.15, 0.4])})
    sc['handlers'].append({'bus': 0, 'pat': 0, 'kind': 'async', 'prog': [['sleep', 0.05]]})
    if rng.random() < 0.45:
        # top-level code waits for ONE handler result of the root (`await event.event_results[id]`) while that handler is still
        # pending behind an earlier one; the result's timeout clock starts with the wait, the handler's own only when it starts
        # (the LAST handler of the root, which itself awaits a child with a slow handler, is the one waited for)
        # (a slow sibling in front of it: the waited-for handler starts late, so a waiter's own clock - started with the wait - can run
        # out while that handler is well inside its own, later, time budget)
        sc['handlers'].append({'bus': 0, 'pat': 0, 'kind': 'async', 'prog': [['sleep', rng.choice([0.2, 0.35])]]})
        sc['handlers'].append({'bus': 0, 'pat': 0, 'kind': 'async', 'prog': [['sleep', 0.05], ['disp', 3, rng.randrange(nb), 'await', None, {}], ['sleep', 0.05]]})
        sc['handlers'].append({'bus': rng.randrange(nb), 'pat': 3, 'kind': 'async', 'prog': [['sleep', 0.3]]})
        sc['actors'].append([['sleep', rng.choice([0.01, 0.06])], ['await_hresult', 0, 0, rng.choice([-1, -1, 1, 2])], ['sleep', 0.3], ['await_hresult', 0, 0, 0]])
    # (cyclic child graphs - a handler handing its own ancestor on - were tried here in round 17: they exposed F33 and F34, both
    # repaired; what a timeout sweep and the completion walk should mean on a cycle is not settled by C10, see DESIGN 8.6)
    if rng.random() < 0.25:
        # an event object created and dispatched by top-level code (queued behind the root) that a handler of the root passes on to
        # a further bus and awaits: it has several handlers there, so a timeout can hit while the first is running
        ob = rng.randrange(nb)
        sc['actors'].append([['disp', 4, 0, 'fire', 0, {}]])
        ai = len(sc['actors']) - 1
        sc['handlers'].append({'bus': 0, 'pat': 0, 'kind': 'async', 'prog': [['sleep', rng.choice([0, 0.02])], ['redisp_actor', ai, 0, ob], ['await_actor', ai, 0], ['sleep', 0.05]]})
        for b in {0, ob}:
            sc['handlers'].append({'bus': b, 'pat': 4, 'kind': 'async', 'prog': [['sleep', rng.choice([0.2, 0.4])]]})
            sc['handlers'].append({'bus': b, 'pat': 4, 'kind': 'async', 'prog': [['sleep', 0.1]]})
    if rng.random() < 0.25:
        # one handler function that handles a parent AND the child it dispatches (same type, bounded depth), next to a handler that
        # awaits a grandchild with several handlers
        b = rng.randrange(nb)
        sc['handlers'].append({'bus': b, 'pat': 5, 'kind': 'async', 'prog': [['recurse', 2, b, 'await'], ['sleep', 0.2]]})
        sc['handlers'].append({'bus': b, 'pat': 5, 'kind': 'async', 'prog': [['disp', 3, rng.randrange(nb), 'await', None, {}]]})
        sc['handlers'].append({'bus': 0, 'pat': 0, 'kind': 'async', 'prog': [['disp', 5, b, 'await', None, {'timeout': rng.choice([0.3, 0.6, 2.0])}]]})
    if nb == 2 and rng.random() < 0.3:
        # the root event is also handled on a second bus (forwarded there), often a parallel one: every bus gives each of its
        # handlers the event's full timeout, counted from when THAT handler is started
        sc['fwd'] = [[0, 1, rng.choice([0, '*'])]]
        if rng.random() < 0.6:
            sc['buses'][1]['par'] = True
        for _ in range(rng.randint(1, 3)):
            sc['handlers'].append({'bus': 1, 'pat': 0, 'kind': 'async', 'prog': [['sleep', rng.choice([0.02, 0.1, 0.3, 0.6])]]})
    if nb == 2 and not sc.get('fwd') and rng.random() < 0.3:
        # a deeper event type is forwarded from the second bus BACK to the first one, where it has several slow handlers: an event that
        # has already completed (and signalled) on one bus gets fresh pending results on the other, possibly inside a timed handler's drain
        t = rng.choice([2, 3])
        sc['fwd'] = [[1, 0, t]]
        sc['handlers'].append({'bus': 1, 'pat': t, 'kind': 'async', 'prog': [['sleep', rng.choice([0, 0.02])]]})
        sc['handlers'].append({'bus': 0, 'pat': t, 'kind': 'async', 'prog': [['sleep', rng.choice([0.15, 0.3])]]})
        sc['handlers'].append({'bus': 0, 'pat': t, 'kind': 'async', 'prog': [['sleep', 0.1]]})
        sc['handlers'].append({'bus': 1, 'pat': 1, 'kind': 'async', 'prog': [['disp', t, 1, 'await', None, {}], ['disp', 3 if t == 2 else 2, 0, 'await', None, {}], ['sleep', 0.05]]})
        sc['handlers'].append({'bus': 0, 'pat': 0, 'kind': 'async', 'prog': [['disp', 1, 1, 'await', None, {'timeout': rng.choice([0.2, 0.35, 0.5])}], ['sleep', 0.05]]})
    if rng.random() < 0.2:
        # a blocking sync handler (the loop cannot run anything while it blocks) beside async siblings
        b = rng.randrange(nb)
        sc['handlers'].insert(rng.randrange(len(sc['handlers']) + 1), {'bus': b, 'pat': rng.choice([0, 1]), 'kind': 'sync', 'prog': [['busy', rng.choice([0.05, 0.2])]]})
    return sc


def timeout_derive(sc: dict, t: float, rng: random.Random):
    if t <= 1e-9:
        return
    # other events carry timeouts of their own (different from the enumerated one), so a timeout applied to the wrong
    # event shows: some shorter, some much longer than anything in the program
    if rng.random() < 0.6:
        for h in sc['handlers']:
            for op in h['prog']:
                if op[0] == 'disp' and rng.random() < 0.5:
                    op[5] = dict(op[5] or {}, timeout=rng.choice([0.02, 0.07, 0.25, 2.0, 9.0, 0, 0.0, -1.0]))  # (zero / negative: an exhausted budget)
    which = rng.random()
    if which < 0.7:
        sc['actors'][0][0][5] = {'timeout': t}
        yield sc
    else:
        # put the timeout on a child dispatched by the first handler instead
        for op in sc['handlers'][0]['prog']:
            if op[0] == 'disp' and op[3] == 'await':
                op[5] = {'timeout': t}
                break
        yield sc


def late_fwd_scenario(rng: random.Random, i: int) -> dict:
    """Forwarding topologies that change while the program runs: wildcard / typed / named forwards attached to a bus after it has
    already processed events of that type, with more events of the same and of fresh types afterwards."""
    c = cfg(nb=(2, 4), p_fwd=0.6, p_wild=0.05, p_strpat=0.2, handlers_per=(1, 1, 2), n_actors=(1, 2), actor_ops=(2, 5), p_par=0.15, p_redisp=0.0, levels=3)
    sc = random_scenario(rng, c)
    nb = len(sc['buses'])
    have = {(a, d) for a, d, _p in sc.get('fwd', [])}
    late, ops = [], []
    for _ in range(rng.randint(1, 2)):
        a = rng.randrange(nb)
        d = rng.choice([x for x in range(nb) if x != a])
        if (a, d) in have:
            continue
        have.add((a, d))
        pat = rng.choice(['*', '*', 0, 'E0', 1])
        late.append([a, d, pat])
        t = 0 if pat in ('*', 0, 'E0') else 1
        # events of that type through bus a before and after the forward is attached
        ops += [['disp', t, a, rng.choice(['fire', 'await']), rng.choice([0, 0.05]), {}], ['sleep', rng.choice([0, 0.05, 0.3])], ['on_fwd', len(late) - 1]]
        ops += [['disp', t, a, rng.choice(['fire', 'await']), rng.choice([0, 0.01]), {}] for _k in range(rng.randint(1, 2))]
        ops.append(['disp', rng.choice([0, 1, 2]), a, 'fire', 0, {}])
    sc['late_fwd'] = late
    sc['actors'].append(ops)
    return sc


def late_on_scenario(rng: random.Random, i: int) -> dict:
    """Handlers registered while the program is running - by class, by name and as wildcards - with events of their type
    processed before, queued across, and dispatched after the registration."""
    c = cfg(nb=(1, 2), p_wild=0.3, p_strpat=0.3, handlers_per=(1, 2, 3), n_actors=(2, 3), actor_ops=(3, 7), p_par=0.2)
    sc = random_scenario(rng, c)
    hs = sc['handlers']
    idx = [k for k, h in enumerate(hs) if 'same_as' not in h and not any(h2.get('same_as') == k for h2 in hs)]
    ops = []
    for k in rng.sample(idx, min(len(idx), rng.randint(1, 3))):
        hs[k]['late'] = True
        if rng.random() < 0.5 and not any(op[0] in ('disp', 'many', 'recurse', 'spawn', 'redisp') for op in hs[k]['prog']):
            hs[k]['pat'] = '*'  # (only handlers that dispatch nothing: a wildcard handler that dispatches feeds itself for ever)
        ops += [['sleep', rng.choice([0, 0.01, 0.05, 0.1, 0.3])], ['on', k]]
        pat = hs[k]['pat']
        t = pat if isinstance(pat, int) else (int(pat[1:]) if isinstance(pat, str) and pat[:1] == 'E' and pat[1:].isdigit() else rng.randrange(3))
        for _ in range(rng.randint(1, 3)):
            ops.append(['disp', t, hs[k]['bus'], rng.choice(['fire', 'await']), rng.choice([0, 0.01, 0.05]), {}])
    sc['actors'].append(ops)
    return sc


def gather_scenario(rng: random.Random, i: int) -> dict:
    """Handlers that await several children at once: `await asyncio.gather(bus_a.dispatch(X()), bus_b.dispatch(Y()))` -
    same bus and other buses, with a backlog, nested one level down as well."""
    c = cfg(nb=(1, 3), levels=3, p_lazy=0.1, p_raise=0.05, p_busy=0.0, prog_len=(1, 3), handlers_per=(1, 1, 2), n_actors=(1, 2), actor_ops=(2, 5), p_wild=0.0, p_par=0.2, p_fwd=0.0)
    sc = random_scenario(rng, c)
    nb = len(sc['buses'])
    # level-0 handler gathers two or three level-1 children; one level-1 handler gathers level-2 children
    sc['handlers'].insert(0, {'bus': 0, 'pat': 0, 'kind': 'async', 'prog': [['sleep', rng.choice([0, 0.05])], ['gather', [[1, rng.randrange(nb)] for _ in range(rng.randint(2, 3))]], ['sleep', rng.choice([0, 0.05])]]})
    if rng.random() < 0.6:
        sc['handlers'].append({'bus': rng.randrange(nb), 'pat': 1, 'kind': 'async', 'prog': [['gather', [[2, rng.randrange(nb)] for _ in range(2)]]]})
    for b in range(nb):
        sc['handlers'].append({'bus': b, 'pat': 2, 'kind': 'async', 'prog': [['sleep', rng.choice(SHORT)]]})
        sc['handlers'].append({'bus': b, 'pat': 1, 'kind': 'async', 'prog': [['sleep', rng.choice(SHORT)]]})
    sc['actors'].insert(0, [['disp', 0, 0, rng.choice(['await', 'fire']), 0, {}]])
    return sc


def waitfor_base(rng: random.Random, i: int) -> dict:
    """Handlers that await children (and grandchildren) inline, some events with handler timeouts of their own; the derived
    scenarios bound those in-handler awaits with asyncio.wait_for."""
    sc = timeout_base(rng, i)
    if rng.random() < 0.4:
        sc['actors'][0][0][5] = {'timeout': rng.choice([0.12, 0.3, 0.8, 5.0])}
    sc['actors'][1] += [['sleep', rng.choice([0.0, 0.2])], ['idle', rng.randrange(len(sc['buses'])), rng.choice([None, None, 0.5])]]
    return sc


def waitfor_derive(sc: dict, t: float, rng: random.Random):
    if t <= 1e-9:
        return
    ops = [op for h in sc['handlers'] for op in h['prog'] if op[0] == 'disp' and op[3] in ('await', 'await2')]
    if not ops:
        return
    chosen = ops if rng.random() < 0.5 else [rng.choice(ops)]
    for op in chosen:
        while len(op) < 6:
            op.append(None)
        op[5] = dict(op[5] or {}, wf_at=t)
    yield sc


def manual_step_scenario(rng: random.Random, i: int) -> dict:
    """A handler drives another bus by hand, `await asyncio.wait_for(bus.step(), T)`, with T shorter or longer than the event it
    picks up, and then goes on with plain work while other buses have events waiting for the lock."""
    nb = rng.choice([2, 3, 3])
    buses = [{'name': f'B{k}', 'par': rng.random() < 0.15, 'lazy': False, 'hist': None} for k in range(nb)]
    tb = 1
    hs = [{'bus': 0, 'pat': 0, 'kind': 'async', 'prog': [['sleep', rng.choice([0.02, 0.05])], ['step', tb, rng.choice([0.05, 0.1, 0.15, 0.5, 1.0])], ['sleep', rng.choice([0.2, 0.5])],
                                                            ['step', tb, rng.choice([0.05, 0.5])], ['sleep', 0.1]]}]
    for b in range(1, nb):
        hs.append({'bus': b, 'pat': 1, 'kind': 'async', 'prog': [['sleep', rng.choice([0.02, 0.12, 0.3])]], 'cleanup': rng.choice([0, 0, 0.15])})
        if rng.random() < 0.4:
            hs.append({'bus': b, 'pat': 1, 'kind': 'async', 'prog': [['disp', 2, b, rng.choice(['fire', 'await']), None, {}]]})
        hs.append({'bus': b, 'pat': 2, 'kind': 'async', 'prog': [['sleep', 0.05]]})
    hs.append({'bus': 0, 'pat': 1, 'kind': 'async', 'prog': [['sleep', 0.05]]})
    actors = [[['disp', 0, 0, 'await', 0, {}]], [['disp', 1, rng.randrange(1, nb), 'fire', rng.choice([0, 0.01]), {}] for _ in range(rng.randint(2, 5))] + [['disp', 1, 0, 'fire', 0, {}]]]
    return {'seed': rng.randrange(1 << 30), 'buses': buses, 'fwd': [], 'handlers': hs, 'actors': actors}


def fwdback_base(rng: random.Random, i: int) -> dict:
    """H on bus 0 awaits C on bus 1 (C carries the enumerated timeout); C's handler awaits G, which bus 1 handles quickly and forwards
    BACK to bus 0, where G has several slow handlers; C's handler then awaits something else on bus 0 and so processes G there inline.
    G's completion signal is already set from bus 1 when it gets fresh pending results on bus 0."""
    par1 = rng.random() < 0.2
    buses = [{'name': 'B0', 'par': False, 'lazy': False, 'hist': None}, {'name': 'B1', 'par': par1, 'lazy': rng.random() < 0.2, 'hist': None}]
    hs = [
        {'bus': 0, 'pat': 0, 'kind': 'async', 'prog': [['disp', 1, 1, 'await', rng.choice([None, 0]), {}], ['sleep', 0.05]], 'cleanup': rng.choice([0, 0, 0.15])},
        {'bus': 1, 'pat': 1, 'kind': 'async', 'prog': [['disp', 2, 1, 'await', None, {}], ['disp', 3, 0, rng.choice(['await', 'await', 'fire']), None, {}], ['sleep', 0.05]], 'cleanup': rng.choice([0, 0.15])},
        {'bus': 1, 'pat': 2, 'kind': rng.choice(['async', 'sync']), 'prog': [] if rng.random() < 0.5 else [['sleep', 0.02]]},
        {'bus': 0, 'pat': 2, 'kind': 'async', 'prog': [['sleep', rng.choice([0.15, 0.3])]], 'cleanup': rng.choice([0, 0, 0.15])},
        {'bus': 0, 'pat': 2, 'kind': 'async', 'prog': [['sleep', 0.1]]},
        {'bus': 0, 'pat': 3, 'kind': 'async', 'prog': [['sleep', 0.05]]},
    ]
    if rng.random() < 0.4:
        hs.append({'bus': 0, 'pat': 2, 'kind': 'async', 'prog': [['disp', 3, rng.randrange(2), 'fire', None, {}]]})
    actors = [[['disp', 0, 0, 'await', 0, {}]], [['sleep', rng.choice([0.05, 0.4])], ['disp', 3, rng.randrange(2), 'await', 0, {}]]]
    return {'seed': rng.randrange(1 << 30), 'buses': buses, 'fwd': [[1, 0, 2]], 'handlers': hs, 'actors': actors}


def fwdback_derive(sc: dict, t: float, rng: random.Random):
    if t <= 1e-9:
        return
    sc['handlers'][0]['prog'][0][5] = {'timeout': t}
    yield sc


def double_cancel_base(rng: random.Random, i: int) -> dict:
    """Three nested awaits with two timeouts (enumerated root timeout above a fixed inner one) over an event on a
    parallel_handlers bus whose sibling handlers need time to unwind: the second cancellation arrives while the first one is
    still being cleaned up. Further events are queued so that something is ready to start the moment the lock is free."""
    t1 = rng.choice([0.2, 0.3, 0.5])
    par_bus = 1
    buses = [{'name': 'B0', 'par': rng.random() < 0.2, 'lazy': False, 'hist': None}, {'name': 'B1', 'par': True, 'lazy': False, 'hist': None}]
    if rng.random() < 0.5:
        buses.append({'name': 'B2', 'par': False, 'lazy': False, 'hist': None})
    nb = len(buses)
    hs = [
        {'bus': 0, 'pat': 0, 'kind': 'async', 'prog': [['sleep', rng.choice([0, 0.05])], ['disp', 1, 0, 'await', None, {'timeout': t1}], ['sleep', 0.1]], 'cleanup': rng.choice([0, 0.15])},
        {'bus': 0, 'pat': 1, 'kind': 'async', 'prog': [['disp', 2, par_bus, 'await', rng.choice([None, 0]), {}], ['sleep', 0.1]], 'cleanup': rng.choice([0, 0, 0.15])},
        {'bus': par_bus, 'pat': 2, 'kind': 'async', 'prog': [['sleep', 2.0]], 'cleanup': 0.4},
        {'bus': par_bus, 'pat': 2, 'kind': 'async', 'prog': [['sleep', 2.0]], 'cleanup': rng.choice([0.15, 0.4])},
        {'bus': par_bus, 'pat': 2, 'kind': rng.choice(['async', 'sync']), 'prog': []},
    ]
    if rng.random() < 0.5:
        hs.append({'bus': par_bus, 'pat': 2, 'kind': 'async', 'prog': [['disp', 3, rng.randrange(nb), 'await', None, {}], ['sleep', 1.0]], 'cleanup': rng.choice([0, 0.15])})
    for b in range(nb):
        hs.append({'bus': b, 'pat': 3, 'kind': 'async', 'prog': [['sleep', rng.choice([0.05, 0.3])]]})
    actors = [[['disp', 0, 0, 'await', 0, {}]],
              [['sleep', rng.choice([0.05, t1 - 0.05])]] + [['disp', 3, rng.randrange(nb), 'fire', rng.choice([0, 0.05]), {}] for _ in range(rng.randint(2, 4))]]
    return {'seed': rng.randrange(1 << 30), 'buses': buses, 'fwd': [], 'handlers': hs, 'actors': actors}


def double_cancel_derive(sc: dict, t: float, rng: random.Random):
    if t <= 1e-9:
        return
    sc['actors'][0][0][5] = {'timeout': t}
    yield sc


def expect_base(rng: random.Random, i: int) -> dict:
    """Event streams on 1-2 buses with simple (non-dispatching) handlers, 1-4 concurrent expect() calls
    with overlapping filters (class / name patterns, include / exclude / deprecated predicate, raising predicates)."""
    nb = rng.choice([1, 1, 2])
    # (bus names of every legal length: the listener expect() registers is NAMED after the bus, the pattern and a source location)
    buses = [{'name': f'B{k}' if rng.random() > 0.12 else f'B{k}_' + 'LongServiceBusName' * rng.choice([5, 9, 14]), 'par': rng.random() < 0.25, 'lazy': False, 'hist': None, 'sized': rng.random() < 0.1} for k in range(nb)]
    hs = []
    for b in range(nb):
        for t in range(3):
            for _ in range(rng.choice([0, 1, 1, 2])):
                hs.append({'bus': b, 'pat': rng.choice([t, f'E{t}', '*']) if rng.random() < 0.9 else '*', 'kind': rng.choice(['async', 'async', 'sync', 'amethod']),
                           'prog': [['sleep', rng.choice([0, 0.01, 0.05, 0.1, 0.3])]] if rng.random() < 0.7 else []})
    actors = []
    for _ in range(rng.randint(1, 2)):
        ops = []
        for _k in range(rng.randint(3, 9)):
            ops.append(['disp', rng.randrange(3), rng.randrange(nb), rng.choice(['fire', 'fire', 'await']), rng.choice([0, 0.01, 0.05, 0.1, 0.3]), {}])
        actors.append(ops)
    n_exp = rng.randint(1, 4)

    def pred():
        x = rng.random()
        if x < 0.45:
            return None
        if x < 0.8:
            m = rng.choice([2, 3])
            return ['mod', m, rng.randrange(m)]
        if x < 0.9:
            m = rng.choice([2, 3, 4])
            return ['raise', m, rng.randrange(m)]
        return rng.choice([['true'], ['false']])
    pinned = rng.random() < 0.3  # also a class that pins its own event_type (wire name != class name)
    if pinned:
        for b in range(nb):
            hs.append({'bus': b, 'pat': rng.choice([6, 'PinnedWire6', 'PinnedWire6']), 'kind': 'async', 'prog': [['sleep', rng.choice([0, 0.05])]]})
        actors.append([['sleep', rng.choice([0, 0.05])]] + [['disp', 6, rng.randrange(nb), 'fire', rng.choice([0.01, 0.1, 0.3]), {}] for _k in range(rng.randint(2, 5))])
    for _ in range(n_exp):
        t = rng.randrange(3)
        if pinned and rng.random() < 0.5:
            t = 6
        spec = {'type': (t if rng.random() < 0.6 else ('PinnedWire6' if t == 6 else f'E{t}')), 'include': pred(), 'exclude': pred() if rng.random() < 0.5 else None,
                'predicate': pred() if rng.random() < 0.3 else None, 'timeout': rng.choice([0.05, 0.2, 0.5, 1.0, 3.0, None, 0, 0.0, -1.0]), 'falsy_filters': rng.random() < 0.2}
        actors.append([['sleep', rng.choice([0, 0, 0.02, 0.1, 0.4])], ['expect', rng.randrange(nb), spec]])
    return {'seed': rng.randrange(1 << 30), 'buses': buses, 'fwd': [], 'handlers': hs, 'actors': actors, 'n_exp': n_exp, 'W': 4.0}


def expect_random(rng: random.Random, i: int) -> dict:
    sc = expect_base(rng, i)
    if rng.random() < 0.5:
        sc['loop'] = {'jitter': 1e-7}
    return sc


def expect_cancel_derive(sc: dict, t: float, rng: random.Random):
    n_exp = sc.get('n_exp', 1)
    victim = len(sc['actors']) - 1 - rng.randrange(n_exp)
    sc['actors'] = sc['actors'] + [[['sleep', t], ['cancel_actor', victim]]]
    yield sc


def rand_payload(rng: random.Random, depth: int = 0):
    """JSON-round-trippable payloads: nested containers, unicode incl. astral plane, aware / naive datetimes.
    Excluded: lone surrogates, NaN / inf (JSON cannot round-trip them)."""
    def leaf():
        x = rng.random()
        if x < 0.2:
            return rng.choice([0, 1, -1, 2**53, -2**40, 12345678901234567890])
        if x < 0.3:
            return rng.choice([0.5, -1.25, 1e100, 1e-7, 3.141592653589793])
        if x < 0.35:
            return rng.choice([True, False, None])
        if x < 0.75:
            return rng.choice(['', 'a', 'hello world', 'ü-ß-é', '日本語', '𝄞 clef', 'emoji 😀', 'quote " backslash \\ newline \n tab \t', '\u0000nul', 'a' * 200, '</script>', '{"not": "json"}',
                               'x' * 20000, 'line1\r\nline2', '\u2028 line separator \u2029', 'trailing space ', "single ' quote"])
        if x < 0.79:
            return {'$utf8': rng.choice(['hello', 'ICO \x00\x01 data', 'ünï-bytes', '', 'x' * 300])}  # bytes values
        if x < 0.88:
            return {'$dt': rng.choice(['2024-01-02T03:04:05+00:00', '1999-12-31T23:59:59.999999+05:30', '2030-06-15T12:00:00', '2024-02-29T00:00:00.000001-08:00'])}
        return rng.randint(-1000, 1000)

    def val(d):
        x = rng.random()
        if d >= 3 or x < 0.55:
            return leaf()
        if x < 0.78:
            return [val(d + 1) for _ in range(rng.randint(0, 4))]
        return {rng.choice(['k', 'key', 'ключ', 'a b', 'x.y', '0', 'nested']) + str(j): val(d + 1) for j in range(rng.randint(0, 3))}
    out = {f'p{j}_{rng.choice(["data", "msg", "when", "cfg", "items"])}': val(0) for j in range(rng.randint(0, 4))}
    if depth == 0 and rng.random() < 0.08:
        # a legal event (extra fields of any type are allowed) that has no JSON encoding: its WAL line cannot be produced; that is a
        # failing write like any other - reported, and nothing else affected
        out['unenc'] = rng.choice([{'$bytes': 'fffe80'}, {'$obj': 1}, {'$surrogate': 1}])
    return out


def wal_scenario(rng: random.Random, i: int) -> dict:
    c = cfg(nb=(1, 3), p_fwd=0.4, levels=4, p_idle=0.0, p_par=0.15, p_lazy=0.2, jitter=False, p_unenc=0.0)  # (payloads are set below)
    sc = random_scenario(rng, c)
    kinds = [True, True, True, 'nested', 'devfull', 'parentfile', 'isdir', None]
    any_wal = False
    for b in sc['buses']:
        b['wal'] = rng.choice(kinds)
        any_wal = any_wal or bool(b['wal'])
    if not any_wal:
        sc['buses'][0]['wal'] = True
    for a in sc['actors']:
        for op in a:
            if op[0] == 'disp':
                op[5] = dict(op[5] or {}, payload=rand_payload(rng))
    if rng.random() < 0.35:
        n = sorted(rng.sample(range(1, 12), rng.randint(1, 3)))
        sc['wal_fault'] = {'kind': rng.choice(['open', 'write']), 'n': n}
    if rng.random() < 0.35:
        # two WAL steps of one bus in flight at once: sibling handlers on a parallel bus each dispatch and await a child there
        sc['buses'][0]['par'] = True
        sc['buses'][0]['wal'] = sc['buses'][0].get('wal') or True
        for _k in range(rng.randint(2, 3)):
            sc['handlers'].append({'bus': 0, 'pat': 0, 'kind': 'async', 'prog': [['disp', 3, 0, 'await', rng.choice([None, 0]), {}]]})
        sc['handlers'].append({'bus': 0, 'pat': 3, 'kind': 'async', 'prog': []})
        sc['actors'].append([['disp', 0, 0, 'await', 0.05, {'payload': rand_payload(rng)}], ['disp', 0, 0, 'await', 0, {}]])
    return sc


def later_scenario(rng: random.Random, i: int) -> dict:
    """A handler dispatches several children, awaits them in a different order than it dispatched them, after other
    work; children have fire-and-forget descendants of their own (so 'own handlers done' != 'tree done')."""
    nb = rng.choice([1, 1, 2])
    buses = [{'name': f'B{k}', 'par': False, 'lazy': rng.random() < 0.2, 'hist': None} for k in range(nb)]
    hs = []
    prog = []
    n_ch = rng.randint(2, 4)
    for k in range(n_ch):
        # (some children carry a timeout that their own handlers - at most 0.1 s of work - never reach, but which is shorter than the
        # time the queue ahead of them needs: a timeout bounds a handler's run, not how long somebody waits for the event)
        prog.append(['disp', 1 + (k % 2), rng.randrange(nb) if rng.random() < 0.3 else 0, rng.choice(['later', 'later', 'await', 'fire']), rng.choice([None, 0, 0.05]), {'timeout': rng.choice([0.2, 0.25, 0.4])} if rng.random() < 0.4 else {}])
        if rng.random() < 0.3:
            prog.append(['sleep', rng.choice(SHORT)])
    rng.shuffle(prog)
    hs.append({'bus': 0, 'pat': 0, 'kind': rng.choice(['async', 'amethod']), 'prog': prog})
    for t in (1, 2):
        for b in range(nb):
            hs.append({'bus': b, 'pat': t, 'kind': rng.choice(['async', 'sync']), 'prog': [['disp', 3, rng.randrange(nb), 'fire', None, {}]] + ([['sleep', rng.choice(SHORT)]] if rng.random() < 0.5 else [])})
    for b in range(nb):
        hs.append({'bus': b, 'pat': 3, 'kind': 'async', 'prog': [['sleep', rng.choice([0, 0.05, 0.3])]] if rng.random() < 0.7 else [['disp', 4, b, 'fire', None, {}]]})
        hs.append({'bus': b, 'pat': 4, 'kind': 'async', 'prog': [['sleep', rng.choice(SHORT)]]})
    actors = [[['disp', 0, 0, rng.choice(['await', 'fire']), rng.choice(SHORT), {}], ['await', 0]]]
    if rng.random() < 0.5:
        actors.append([['sleep', rng.choice(SHORT)], ['disp', rng.choice([0, 1, 3]), rng.randrange(nb), 'await', 0, {}]])
    sc = {'seed': rng.randrange(1 << 30), 'buses': buses, 'fwd': [], 'handlers': hs, 'actors': actors}
    if rng.random() < 0.5:
        sc['loop'] = {'jitter': 1e-7}
    return sc


def strict_warnings_scenario(rng: random.Random, i: int) -> dict:
    """Ordinary programs run with UserWarning promoted to an error (python -W error / pytest filterwarnings=error): whatever the
    library chooses to warn about must not turn into a handler's error or change an outcome. Handlers often return exception objects."""
    sc = random_scenario(rng, cfg(nb=(1, 3), p_fwd=0.25, p_par=0.25, levels=4, actor_await=0.7, p_raise=0.08, p_retexc=0.2, p_same_name=0.0))
    sc['strict_warnings'] = True
    return sc


def rehydrated_scenario(rng: random.Random, i: int) -> dict:
    """Handlers (and top-level code) dispatch event objects rebuilt from dumps of finished events (event_processed_at set, no results);
    the children of every event are looked at when its processing ends."""
    sc = random_scenario(rng, cfg(nb=(1, 3), p_fwd=0.25, p_par=0.25, levels=4, actor_await=0.6, p_raise=0.05, modes=['fire', 'fire', 'await', 'later']))
    sc['watch_children'] = True
    for prog in [h['prog'] for h in sc['handlers']] + list(sc['actors']):
        for op in prog:
            if op[0] == 'disp' and rng.random() < 0.4:
                while len(op) < 6:
                    op.append(None)
                op[5] = dict(op[5] or {}, rehydrated=True)
    return sc


def odd_timeout_scenario(rng: random.Random, i: int) -> dict:
    """Event timeouts that are legal but unusual, on ordinary programs: (a) generous timeouts that cannot expire (600 s / 1 h of
    virtual time) on event objects that were constructed long before they are dispatched (creation time up to a day in the past) -
    a timeout is per handler, counted from the handler's start, whatever the age of the object; (b) zero and negative timeouts
    (an exhausted deadline budget passed on): the event's async handlers time out at once, sync handlers run, the event completes."""
    x = rng.random()
    if x < 0.4:
        sc = shapes_scenario(rng, i)
        zero_ok = False
    elif x < 0.7:
        sc = later_scenario(rng, i)
        zero_ok = True
    else:
        sc = random_scenario(rng, cfg(nb=(1, 3), p_fwd=0.3, p_par=0.25, levels=4, actor_await=0.6, p_raise=0.08))
        zero_ok = True
    progs = [h['prog'] for h in sc['handlers']] + list(sc['actors'])
    for prog in progs:
        for op in prog:
            if op[0] != 'disp':
                continue
            while len(op) < 6:
                op.append(None)
            o = dict(op[5] or {})
            y = rng.random()
            if y < 0.5:
                o['slack_timeout'] = rng.choice([600.0, 3600.0])
                if rng.random() < 0.7 and not o.get('prebuilt'):
                    o['age'] = rng.choice([5.0, 700.0, 4000.0, 90000.0])
            elif y < 0.62 and zero_ok and not o.get('share'):
                o['timeout'] = rng.choice([0, 0.0, -1.0, -0.25])
            op[5] = o
    return sc


def error_base(rng: random.Random, i: int) -> dict:
    """A root event with several handlers (often on a parallel_handlers bus) whose children are processed while a
    sibling handler raises at an enumerated instant; plus later events. The raiser is the LAST handler registered."""
    c = cfg(nb=(1, 3), levels=4, p_par=0.0, p_lazy=0.1, p_raise=0.0, p_retexc=0.0, p_busy=0.02, p_sync=0.15, p_wild=0.05, prog_len=(1, 3), handlers_per=(1, 1, 2), n_actors=(1, 1), actor_ops=(1, 1), jitter=False, p_fwd=0.3)
    sc = random_scenario(rng, c)
    nb = len(sc['buses'])
    sc['buses'][0]['par'] = rng.random() < 0.7
    sc['handlers'].insert(0, {'bus': 0, 'pat': 0, 'kind': 'async', 'prog': [['disp', 1, rng.randrange(nb), 'await', rng.choice([None, 0, 0.05]), {}], ['sleep', rng.choice(SHORT)]]})
    for b in range(nb):
        sc['handlers'].append({'bus': b, 'pat': 1, 'kind': 'async', 'prog': [['sleep', rng.choice([0.05, 0.1, 0.3])]]})
        sc['handlers'].append({'bus': b, 'pat': 1, 'kind': rng.choice(['async', 'sync']), 'prog': [['disp', 2, rng.randrange(nb), 'fire', None, {}]] if rng.random() < 0.5 else []})
    sc['actors'] = [[['disp', 0, 0, 'await', 0, {}]], [['sleep', rng.choice([0.0, 0.05, 0.3])], ['disp', 1, rng.randrange(nb), 'await', 0, {}], ['disp', 0, 0, 'await', 0, {}]]]
    sc['handlers'].append({'bus': 0, 'pat': 0, 'kind': 'async', 'prog': [['sleep', 0.0], ['raise', rng.choice(EXCS)]], 'raiser': True})
    return sc


def error_derive(sc: dict, t: float, rng: random.Random):
    for h in sc['handlers']:
        if h.get('raiser'):
            h['prog'][0][1] = t
    yield sc


def idle_base(rng: random.Random, i: int) -> dict:
    """Programs for placing a racing wait_until_idle() at every instant: cross-bus nested awaits, small history limits
    (in-flight events evicted while still running), errors, a rejected burst."""
    nb = rng.choice([2, 2, 3])
    buses = [{'name': f'B{k}', 'par': rng.random() < 0.15, 'lazy': rng.random() < 0.2, 'hist': rng.choice([1, 1, 2, 3, 5, None])} for k in range(nb)]
    hs = []
    tb = 1
    hs.append({'bus': 0, 'pat': 0, 'kind': 'async', 'prog': [['disp', 1, tb, 'await', rng.choice([None, 0, 0.05]), {}], ['sleep', rng.choice(SHORT)]]})
    hs.append({'bus': tb, 'pat': 1, 'kind': 'async', 'prog': [['disp', 2, tb, rng.choice(['fire', 'await']), None, {}], ['sleep', rng.choice([0.15, 0.3, 1.0])]] + ([['raise', rng.choice(EXCS)]] if rng.random() < 0.2 else [])})
    hs.append({'bus': tb, 'pat': 2, 'kind': rng.choice(['async', 'sync']), 'prog': [['disp', 3, rng.randrange(nb), 'fire', None, {}]] if rng.random() < 0.5 else []})
    for b in range(nb):
        hs.append({'bus': b, 'pat': 3, 'kind': 'async', 'prog': [['sleep', rng.choice(SHORT)]]})
        if rng.random() < 0.4:
            hs.append({'bus': b, 'pat': rng.choice([1, 2]), 'kind': 'async', 'prog': [['sleep', rng.choice(SHORT)]]})
    actors = [[['disp', 0, 0, rng.choice(['await', 'fire']), rng.choice(SHORT), {}], ['disp', 0, 0, 'fire', 0, {}], ['await', 0]]]
    if rng.random() < 0.6:
        actors.append([['sleep', rng.choice(SHORT)], ['disp', rng.choice([1, 2, 3]), rng.randrange(nb), 'fire', rng.choice(SHORT), {}], ['disp', 3, tb, 'fire', 0, {}]])
    fwd = [[tb, (tb + 1) % nb, rng.choice(['*', 3])]] if rng.random() < 0.3 else []  # the bus's last event may finish on another bus
    if rng.random() < 0.3:
        # a bus that has been idle for seconds (its run loop has polled an empty queue dozens of times) holds, in its history, an
        # event that becomes 'started' again because user code hands the finished object to ANOTHER bus with a slow handler
        ob = (tb + 1) % nb
        hs.append({'bus': ob, 'pat': 4, 'kind': 'async', 'prog': [['sleep', rng.choice([0.3, 0.6])]]})
        hs.append({'bus': tb, 'pat': 4, 'kind': 'async', 'prog': []})
        actors.append([['disp', 4, tb, 'await', rng.choice([2.3, 3.1]), {}], ['redisp', 0, ob], ['sleep', 0.05], ['idle', tb, None]])
    return {'seed': rng.randrange(1 << 30), 'buses': buses, 'fwd': fwd, 'handlers': hs, 'actors': actors}


def idle_derive(sc: dict, t: float, rng: random.Random):
    nb = len(sc['buses'])
    b = rng.choice([1, 1, rng.randrange(nb)])
    two = rng.random() < 0.5
    sc['actors'] = sc['actors'] + [[['sleep', t], ['idle', b, rng.choice([0.03, 0.15, 0.03, 0.15, 0.5, None] if two else [None, None, 0.5, 2.0])]]]
    if two:
        # a second caller on the same bus that is already waiting (or arrives a little later) while the first one comes and goes:
        # one caller leaving - by timeout or normally - must not strand the other
        sc['actors'] = sc['actors'] + [[['sleep', rng.choice([0.0, 0.0, max(0.0, t - 0.05), t + 0.01])], ['idle', b, None]]]
    yield sc


def history_deep_scenario(rng: random.Random, i: int) -> dict:
    """Long fire-and-forget chains across buses with tiny history limits: completion has to climb through ancestors
    that were evicted (while started, and after their own handlers returned) from every history."""
    return random_scenario(rng, cfg(hist=[1, 1, 2, 3], nb=(1, 3), levels=6, modes=['fire', 'fire', 'fire', 'await', 'later'], prog_len=(1, 3), handlers_per=(1, 1, 2), actor_ops=(2, 6), p_idle=0.05, p_wild=0.05))


def shapes_scenario(rng: random.Random, i: int) -> dict:
    """Registration and await SHAPES: one function object registered on two buses / under two patterns / twice; bound methods;
    a child awaited twice, awaited by a sibling handler that did not dispatch it, dispatched to two buses; an actor awaiting
    another actor's event; zero-handler events."""
    sc = random_scenario(rng, cfg(nb=(1, 3), p_par=0.35, p_lazy=0.2, levels=4, p_idle=0.05, p_wild=0.1, p_redisp=0.03, p_actor_redisp=0.05, modes=['fire', 'await', 'await', 'later', 'await2'], p_fwd=0.35))
    nb = len(sc['buses'])
    hs = sc['handlers']
    n0 = len(hs)
    # shared function objects
    for _ in range(rng.randint(0, 3)):
        if not n0:
            break
        j = rng.randrange(n0)
        src = hs[j]
        if src['pat'] == '*' and rng.random() < 0.5:
            continue
        x = rng.random()
        t = src['pat'] if isinstance(src['pat'], int) else (int(src['pat'][1:]) if isinstance(src['pat'], str) and src['pat'].startswith('E') and src['pat'][1:].isdigit() else None)
        if x < 0.3 and t is not None:
            pat = f'E{t}' if isinstance(src['pat'], int) else t  # the other spelling of the same type
            hs.append({'bus': src['bus'], 'pat': pat, 'kind': src['kind'], 'prog': [], 'same_as': j})
        elif x < 0.5:
            hs.append({'bus': src['bus'], 'pat': src['pat'], 'kind': src['kind'], 'prog': [], 'same_as': j})  # registered twice
        elif x < 0.7 and not any(op[0] == 'disp' for op in src['prog']):
            hs.append({'bus': src['bus'], 'pat': '*', 'kind': src['kind'], 'prog': [], 'same_as': j})  # also as wildcard (never dispatches)
        elif nb > 1:
            ob = rng.choice([b for b in range(nb) if b != src['bus']])
            hs.append({'bus': ob, 'pat': src['pat'], 'kind': src['kind'], 'prog': [], 'same_as': j})  # same function on another bus
            if rng.random() < 0.6 and not any(f[0] == src['bus'] and f[1] == ob for f in sc['fwd']):
                sc['fwd'].append([src['bus'], ob, '*' if rng.random() < 0.6 else (src['pat'] if isinstance(src['pat'], int) else '*')])  # ... which also receives the event by forwarding
    # sibling handlers that await an event dispatched (and shared) by another handler of the same event
    if rng.random() < 0.6:
        b = rng.randrange(nb)
        key = f'k{i}'
        hs.append({'bus': b, 'pat': 0, 'kind': 'async', 'prog': [['disp', 2, rng.randrange(nb), rng.choice(['await', 'fire', 'later', 'await2']), rng.choice([None, 0]), {'share': key}], ['sleep', rng.choice(SHORT)]]})
        hs.append({'bus': b, 'pat': 0, 'kind': 'async', 'prog': [['sleep', rng.choice([0, 0, 0.001, 0.05])], ['await_shared', key], ['disp', 3, b, 'fire', None, {}]] + ([['ret_shared', key]] if rng.random() < 0.4 else [])})
        if rng.random() < 0.4:
            hs.append({'bus': rng.randrange(nb), 'pat': 1, 'kind': 'async', 'prog': [['sleep', rng.choice(SHORT)], ['await_shared', key]]})
    # a later handler of the same event passes the children its siblings dispatched on to another bus (the same child object
    # dispatched from inside two different handlers of one parent)
    if nb > 1 and rng.random() < 0.35:
        b = rng.randrange(nb)
        ob = rng.choice([x for x in range(nb) if x != b])
        hs.append({'bus': b, 'pat': 1, 'kind': 'async', 'prog': [['disp', 3, b, rng.choice(['fire', 'await']), None, {}]]})
        hs.append({'bus': b, 'pat': 1, 'kind': rng.choice(['async', 'sync']), 'prog': [['relay_children', ob]]})
    # the same child object dispatched to two buses by one handler
    if nb > 1 and rng.random() < 0.4:
        b = rng.randrange(nb)
        hs.append({'bus': b, 'pat': 1, 'kind': rng.choice(['async', 'sync']), 'prog': [['disp', 3, b, 'fire', None, {'also': rng.choice([x for x in range(nb) if x != b])}]]})
    # explicit event_parent_id equal to the id of the event being handled
    for h in hs:
        for op in h['prog']:
            if op[0] == 'disp' and rng.random() < 0.12 and not (op[5] or {}).get('parent'):
                op[5] = dict(op[5] or {}, parent='self')
    # a handler awaiting an event that top-level code dispatched (not part of the handler's own tree)
    if sc['actors'] and rng.random() < 0.5:
        a = rng.randrange(len(sc['actors']))
        hs.append({'bus': rng.randrange(nb), 'pat': rng.choice([0, 1]), 'kind': 'async', 'prog': [['sleep', rng.choice([0, 0, 0.001, 0.05])], ['await_actor', a, rng.randrange(3)]] + ([['ret_actor', a, rng.randrange(3)]] if rng.random() < 0.4 else [])})
    # several handlers of one event returning lists / dicts, then every accessor is called on the completed event
    if rng.random() < 0.5:
        b = rng.randrange(nb)
        for _k in range(rng.randint(2, 3)):
            hs.append({'bus': b, 'pat': 2, 'kind': rng.choice(['async', 'sync']), 'prog': [['ret', rng.choice([[1, 2], [3], [4, 5, 6], {'a': 1}, {'b': 2}, [7]])]]})
        sc['actors'].append([['sleep', rng.choice(SHORT)], ['disp', 2, b, 'await', 0, {}], ['access', 0], ['access', 0], ['disp', 2, b, 'fire', 0.05, {}], ['access', 1]])
    # an actor awaiting another actor's events
    na = len(sc['actors'])
    if na > 1 and rng.random() < 0.6:
        sc['actors'][0].append(['await_of', 1, 0])
        sc['actors'][1].insert(rng.randrange(len(sc['actors'][1]) + 1), ['await_of', 0, 0])
    return sc
