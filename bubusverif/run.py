"""CLI:  python -m bubusverif.run --property C01 --tier quick [--seed N] [--shards K] [--replay file]

Exit 0: property held on everything explored (known findings printed as KNOWN-FINDING lines).
Exit 1: 'VIOLATION property=<id> replay=<path>' for a violation not listed in known_findings.json.
Exit 2: inconclusive (deciding monitors saw fewer non-vacuous instances than their floor, or watchdog).
"""
from __future__ import annotations

import argparse
import collections
import json
import os
import signal
import subprocess
import sys
import time

ROOT = os.path.dirname(os.path.dirname(os.path.abspath(__file__)))
WORK = os.path.join(ROOT, '.work')
EVID = os.environ.get('VERIF_EVIDENCE_DIR') or os.path.join(ROOT, 'evidence')  # override: self-validation runs on mutated trees
REPLAYS = os.path.join(os.environ['VERIF_EVIDENCE_DIR'], 'replays') if os.environ.get('VERIF_EVIDENCE_DIR') else os.path.join(ROOT, 'replays')
PY = sys.executable
CASE_WATCHDOG_S = 120
MAX_KEEP = 12


def ensure_deps() -> None:
    """No third-party dependency is needed: every monitor is plain Python beside the repository's interpreter."""
    return None


def load_known() -> dict:
    with open(os.path.join(ROOT, 'known_findings.json')) as f:
        kf = json.load(f)
    known = {}
    for e in kf['findings']:
        if e.get('status') == 'known':
            for p in e['properties']:
                known[(p, e['id'])] = e
    return known


def _known(known: dict, prop: str, mech):
    """A witness is a known finding only if EVERY mechanism in its signature is listed for that property."""
    if not mech or mech == 'None':
        return None
    parts = str(mech).split('+')
    ents = [known.get((prop, m)) for m in parts]
    if any(e is None for e in ents):
        return None
    return ents[0] if len(ents) == 1 else {'id': mech, 'summary': ' AND '.join(e['summary'] for e in ents)}


class _Watchdog(KeyboardInterrupt):
    """Raised by SIGALRM. Derives from KeyboardInterrupt because asyncio and the library under test swallow
    ordinary exceptions (and even BaseException in callbacks); KeyboardInterrupt is re-raised out of the loop."""


_progress = {'n': -1, 'extensions': 0}


def _alarm(_s, _f):
    # a program that is still producing trace records is alive, only slow (a runaway program on its way to the record cap - the
    # library's bookkeeping is quadratic in the history size): it gets up to twelve more periods. No new record in a whole period means
    # the process is stuck in a synchronous loop - that is what the watchdog is for.
    try:
        from . import engine
        run = engine._RUN
    except Exception:
        run = None
    n = run.n if run is not None else -1
    if run is not None and n != _progress['n'] and _progress['extensions'] < 12:
        _progress['n'] = n
        _progress['extensions'] += 1
        signal.alarm(CASE_WATCHDOG_S)
        return
    raise _Watchdog()


def shard_main(args) -> int:
    from . import checks
    from .core import Result

    os.makedirs(WORK, exist_ok=True)
    chk = checks.CHECKS[args.property]
    fams = [checks.FAMILIES[n] for n in chk.families]
    out = {'evaluations': 0, 'counters': collections.Counter(), 'fps': set(), 'fps_all': 0, 'violations': [], 'nviol': collections.Counter(),
           'inconclusive': collections.Counter(), 'samples': [], 'per_family': collections.Counter(), 'nontrivial': 0}
    signal.signal(signal.SIGALRM, _alarm)
    idx = 0
    t_end = time.time() + args.budget if args.budget else None
    only = json.load(open(args.replay)) if args.replay else None
    for fam in fams:
        if only is not None:
            if fam.name != only['case']['family']:
                continue
            stream = [only['case']]
        else:
            stream = fam.cases(args.seed, args.tier, args.property)
        it = iter(stream)
        while True:
            # (enumerated families run their base program inside the generator: that run is under the watchdog too)
            _progress.update(n=-1, extensions=0)
            signal.alarm(CASE_WATCHDOG_S)
            try:
                case = next(it)
            except StopIteration:
                break
            except _Watchdog:
                out['inconclusive']['watchdog'] += 1
                break
            finally:
                signal.alarm(0)
            idx += 1
            if only is None and (idx - 1) % args.nshards != args.shard:
                continue
            if t_end and time.time() > t_end:
                out['inconclusive']['budget-exhausted'] += 1
                break
            _progress.update(n=-1, extensions=0)
            signal.alarm(CASE_WATCHDOG_S)
            try:
                res = fam.execute(case, args.property)
            except _Watchdog:
                res = Result(inconclusive='watchdog')
            except Exception as ex:  # harness failure is never a verdict
                import traceback
                res = Result(inconclusive=f'harness-error:{type(ex).__name__}:{ex}'[:300])
                if args.replay or os.environ.get('VERIF_DEBUG'):
                    traceback.print_exc()
            finally:
                signal.alarm(0)
            out['evaluations'] += 1
            out['per_family'][fam.name] += 1
            if res.inconclusive:
                out['inconclusive'][res.inconclusive] += 1
                continue
            out['counters'].update(res.counters)
            if res.nontrivial:
                out['nontrivial'] += 1
                out['fps'].add(fam.name + ':' + res.fingerprint)
            for v in res.violations:
                key = f"{v['prop']}|{v['mech']}|{v['clause']}"
                out['nviol'][key] += 1
                if sum(1 for x in out['violations'] if x['key'] == key) < 3:
                    out['violations'].append({'key': key, 'v': v, 'case': case})
            if res.sample is not None and len(out['samples']) < 2 and res.nontrivial and (idx % 7 == 0 or not out['samples']):
                out['samples'].append(res.sample)
            if args.replay:
                for v in res.violations:
                    print('  violation:', json.dumps(v, default=str)[:1500])
                print('  counters:', dict(res.counters))
    out['fps'] = sorted(out['fps'])
    for k in ('counters', 'nviol', 'inconclusive', 'per_family'):
        out[k] = dict(out[k])
    if args.out:
        with open(args.out, 'w') as f:
            json.dump(out, f, default=str)
    return 0


def main() -> int:
    ap = argparse.ArgumentParser()
    ap.add_argument('--property', required=True)
    ap.add_argument('--tier', default=os.environ.get('VERIF_TIER', 'quick'), choices=['quick', 'thorough'])
    ap.add_argument('--seed', type=int, default=int(os.environ.get('VERIF_SEED', '20260927')))
    ap.add_argument('--shards', type=int, default=0)
    ap.add_argument('--shard', type=int, default=-1)
    ap.add_argument('--nshards', type=int, default=1)
    ap.add_argument('--out')
    ap.add_argument('--budget', type=float, default=0)
    ap.add_argument('--replay')
    args = ap.parse_args()
    ensure_deps()
    os.environ.setdefault('PYTHONHASHSEED', '0')
    if args.shard >= 0 or args.replay:
        if args.replay:
            args.shard, args.nshards = 0, 1
        return shard_main(args)

    from . import checks

    chk = checks.CHECKS[args.property]
    t0 = time.time()
    os.makedirs(WORK, exist_ok=True)
    os.makedirs(EVID, exist_ok=True)
    os.makedirs(REPLAYS, exist_ok=True)
    n = args.shards or min(16, os.cpu_count() or 4)
    if args.tier == 'quick':
        n = min(n, 8)
    procs = []
    env = dict(os.environ, PYTHONDONTWRITEBYTECODE='1', PYTHONHASHSEED='0', BUBUS_VERIF='1')
    wall_cap = 900 if args.tier == 'quick' else 3600
    for i in range(n):
        outp = os.path.join(WORK, f'{args.property}.{args.tier}.{os.getpid()}.{i}.json')
        cmd = [PY, '-m', 'bubusverif.run', '--property', args.property, '--tier', args.tier, '--seed', str(args.seed), '--shard', str(i), '--nshards', str(n), '--out', outp, '--budget', str(wall_cap - 60)]
        procs.append((subprocess.Popen(cmd, cwd=ROOT, env=env, stdout=subprocess.PIPE, stderr=subprocess.PIPE, text=True), outp))
    merged = {'evaluations': 0, 'counters': collections.Counter(), 'fps': set(), 'violations': [], 'nviol': collections.Counter(), 'inconclusive': collections.Counter(),
              'samples': [], 'per_family': collections.Counter(), 'nontrivial': 0}
    shard_fail = []
    for i, (p, outp) in enumerate(procs):
        try:
            so, se = p.communicate(timeout=max(10, wall_cap - (time.time() - t0)))
        except subprocess.TimeoutExpired:
            p.kill()
            so, se = p.communicate()
            shard_fail.append(f'shard {i}: wall-clock watchdog')
            continue
        if p.returncode != 0 or not os.path.exists(outp):
            shard_fail.append(f'shard {i}: exit {p.returncode}: {se[-400:]}')
            continue
        with open(outp) as f:
            o = json.load(f)
        os.remove(outp)
        merged['evaluations'] += o['evaluations']
        merged['nontrivial'] += o['nontrivial']
        merged['fps'].update(o['fps'])
        for k in ('counters', 'nviol', 'inconclusive', 'per_family'):
            merged[k].update(o[k])
        merged['violations'].extend(o['violations'])
        merged['samples'].extend(o['samples'][:1])

    known = load_known()
    unknown, known_hits = [], collections.OrderedDict()
    for item in merged['violations']:
        v = item['v']
        kf = _known(known, v['prop'], v['mech'])
        if kf is not None:
            for part in str(v['mech']).split('+'):
                known_hits.setdefault((v['prop'], part), (known[(v['prop'], part)], item))
        else:
            unknown.append(item)
    n_unknown = sum(c for key, c in merged['nviol'].items() if _known(known, key.split('|')[0], key.split('|')[1]) is None)
    n_known = sum(c for key, c in merged['nviol'].items() if _known(known, key.split('|')[0], key.split('|')[1]) is not None)

    floors_missed = []
    for ckey, fl in chk.floors.items():
        need = fl[args.tier] if isinstance(fl, dict) else fl
        have = merged['counters'].get(ckey, 0)
        if have < need:
            floors_missed.append(f'{ckey}: {have} < {need}')
    # a case that ran into the wall-clock watchdog (the process was stuck in a synchronous loop, or the machine was far too slow) was
    # not decided: the run as a whole is inconclusive, never 'held'
    inconclusive = bool(shard_fail) or bool(floors_missed) or any(k.startswith('harness-error') or k == 'watchdog' for k in merged['inconclusive'])

    wall = time.time() - t0
    ev = {
        'property_id': args.property, 'tier': args.tier, 'seed': args.seed, 'level': chk.level,
        'coverage': {
            'evaluations': merged['evaluations'],
            'distinct_nontrivial': len(merged['fps']),
            'rule': chk.rule,
            'samples': merged['samples'][:3],
            'nontrivial_cases': merged['nontrivial'],
            'per_family': dict(merged['per_family']),
            'monitor_counters': {k: v for k, v in sorted(merged['counters'].items())},
            'floors': {k: (v[args.tier] if isinstance(v, dict) else v) for k, v in chk.floors.items()},
            'known_finding_witnesses': n_known,
            'violation_breakdown': dict(merged['nviol']),
            'inconclusive_cases': dict(merged['inconclusive']),
            'shard_failures': shard_fail,
            'verdict': 'violated' if unknown else ('inconclusive' if inconclusive else 'held-on-observed'),
        },
        'assumptions': chk.assumptions,
        'wall_s': round(wall, 2),
        'violations': n_unknown,
    }
    with open(os.path.join(EVID, f'{args.property}.json'), 'w') as f:
        json.dump(ev, f, indent=1, default=str)
    if args.tier == 'thorough' and not os.environ.get('VERIF_EVIDENCE_DIR'):
        # keep the last thorough run next to the (quick) evidence that `vp check` regenerates
        os.makedirs(os.path.join(ROOT, 'evidence_thorough'), exist_ok=True)
        with open(os.path.join(ROOT, 'evidence_thorough', f'{args.property}.json'), 'w') as f:
            json.dump(ev, f, indent=1, default=str)

    print(f"[{args.property}/{args.tier}] cases={merged['evaluations']} nontrivial={merged['nontrivial']} distinct_fingerprints={len(merged['fps'])} wall={wall:.1f}s seed={args.seed}")
    print('  monitors: ' + ', '.join(f'{k}={v}' for k, v in sorted(merged['counters'].items()) if not k.startswith('hang_'))[:1500])
    for (prop, mech), (kf, item) in known_hits.items():
        cnt = sum(c for key, c in merged['nviol'].items() if key.split('|')[0] == prop and mech in key.split('|')[1].split('+') and _known(known, prop, key.split('|')[1]) is not None)
        print(f"KNOWN-FINDING: property={prop} {mech} {kf['summary']} [{cnt} witnesses this run]")
    if unknown:
        seen = set()
        for item in unknown:
            if item['key'] in seen:
                continue
            seen.add(item['key'])
            path = os.path.join(REPLAYS, f"{args.property}-{args.tier}-{args.seed}-{len(seen)}.json")
            with open(path, 'w') as f:
                json.dump({'property': args.property, 'key': item['key'], 'violation': item['v'], 'case': item['case']}, f, default=str)
            print(f"  {item['key']}  x{merged['nviol'][item['key']]}  witness={json.dumps(item['v']['w'], default=str)[:400]}")
            print(f'VIOLATION property={args.property} replay={path}')
        return 1
    if inconclusive:
        print('INCONCLUSIVE: ' + '; '.join(floors_missed + shard_fail + [k for k in merged['inconclusive']]))
        return 2
    if merged['inconclusive']:
        print('  note: inconclusive cases (not counted): ' + str(dict(merged['inconclusive'])))
    print(f'OK property={args.property} held on everything explored')
    return 0


if __name__ == '__main__':
    sys.exit(main())
