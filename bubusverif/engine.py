"""Scenario engine: runs a JSON scenario against the real bubus library on a virtual-time loop and
records a trace at the client boundary (dispatch / handler bodies / awaits / public bus methods).

Nothing here decides a property; oracles.py does that over the returned trace + final snapshot.
"""
from __future__ import annotations

import asyncio
import gc
import logging
import os
import random
import shutil
import warnings
import weakref
from typing import Any

warnings.simplefilter('ignore')

from bubus import BaseEvent, EventBus  # noqa: E402
from pydantic import Field  # noqa: E402
import bubus.helpers as H  # noqa: E402
import bubus.service as S  # noqa: E402

from .vloop import Hang, VLoop, hard_close, patch_threads  # noqa: E402


class E0(BaseEvent):
    tag: int = 0


class E1(BaseEvent):
    """A container-like event: it defines __len__ and is EMPTY, hence falsy (`if event:` / `event or ...` treat it as absent)."""
    tag: int = 0
    items: list = Field(default_factory=list)

    def __len__(self) -> int:
        return len(self.items)


class E2(BaseEvent):
    tag: int = 0


class E3(BaseEvent):
    """Defines __bool__ (an event that says of itself whether it 'succeeded'): falsy as well."""
    tag: int = 0
    ok: bool = False

    def __bool__(self) -> bool:
        return self.ok


class E4(BaseEvent):
    tag: int = 0


class E5(BaseEvent):
    tag: int = 0


class P6(BaseEvent):
    """An event class that pins its own event_type (the wire name differs from the class name)."""
    event_type: str = Field(default='PinnedWire6', frozen=True)
    tag: int = 0


TYPES = [E0, E1, E2, E3, E4, E5, P6]


def type_key(t: int) -> str:
    """The event_type its instances carry."""
    return 'PinnedWire6' if t == 6 else f'E{t}'


def pattern_key(pat) -> str:
    """The registry key a subscription pattern is filed under (a class pattern is shorthand for its __name__)."""
    if pat == '*':
        return '*'
    return TYPES[pat].__name__ if isinstance(pat, int) else pat


class CustomError(Exception):
    pass


class UnhashableError(Exception):
    """An exception class that defines equality and is therefore unhashable (what a plain @dataclass error class is)."""

    def __init__(self, msg):
        super().__init__(msg)
        self.msg = msg

    def __eq__(self, other):
        return isinstance(other, UnhashableError) and other.msg == self.msg

    __hash__ = None  # type: ignore[assignment]


class TwoArgError(Exception):
    """Cannot be re-created from a message string alone; str() of it is not its constructor argument."""

    def __init__(self, code, detail):
        super().__init__(code, detail)
        self.code, self.detail = code, detail

    def __str__(self):
        return f'[{self.code}] {self.detail}'


class UnprintableError(Exception):
    """str() / repr() of it raise (a buggy __str__ in a user's exception class): whoever formats it for a log line fails."""

    def __str__(self):
        raise KeyError('no such message field')

    __repr__ = __str__


class FalsyError(Exception):
    """An "error collection" exception (`raise Errors(found)`): a sized container of sub-errors - and falsy when that is empty."""

    def __init__(self, msg):
        super().__init__(msg)
        self.items: list = []

    def __len__(self):
        return len(self.items)


class FalsyBoolError(Exception):
    """Says of itself whether it is fatal: `__bool__` is False for a recoverable error."""

    def __bool__(self):
        return False


EXC = {
    'ValueError': ValueError,
    'KeyError': KeyError,
    'RuntimeError': RuntimeError,
    'Custom': CustomError,
    'TimeoutError': TimeoutError,
    'OSError': OSError,
    'ZeroDivisionError': ZeroDivisionError,
}


def make_exc(kind: str, label: str) -> BaseException:
    if kind == 'LoopClosed':
        return RuntimeError('Event loop is closed')
    if kind == 'NoLoop':
        return RuntimeError('no running event loop')
    if kind == 'StopIter':
        return StopIteration(label)  # what `next(x for x in items if ...)` raises in a sync handler when nothing matches
    if kind == 'Unprintable':
        return UnprintableError(label)
    if kind == 'Falsy':
        return FalsyError(f'{kind}@{label}')
    if kind == 'FalsyBool':
        return FalsyBoolError(f'{kind}@{label}')
    if kind == 'Unhashable':
        return UnhashableError(f'{kind}@{label}')
    if kind == 'TwoArg':
        return TwoArgError(7, f'{kind}@{label}')
    if kind == 'Chained':  # carries an explicit cause (raise X from Y)
        ex = CustomError(f'{kind}@{label}')
        ex.__cause__ = ValueError('root cause')
        return ex
    return EXC[kind](f'{kind}@{label}')


class _Opaque:
    pass


def _payload(x):
    """Payload spec (JSON) -> python values: {'$dt': iso} becomes a datetime."""
    import datetime as _dt
    if isinstance(x, dict):
        if set(x) == {'$dt'}:
            return _dt.datetime.fromisoformat(x['$dt'])
        if set(x) == {'$utf8'}:
            return x['$utf8'].encode('utf-8')  # a bytes payload that IS valid UTF-8
        if set(x) == {'$bytes'}:
            return bytes.fromhex(x['$bytes'])  # e.g. 'fffe': not valid UTF-8, has no JSON encoding
        if set(x) == {'$obj'}:
            return _Opaque()  # an arbitrary object: no JSON encoding
        if set(x) == {'$surrogate'}:
            return 'lone \ud800 surrogate'  # cannot be encoded as UTF-8
        return {k: _payload(v) for k, v in x.items()}
    if isinstance(x, list):
        return [_payload(v) for v in x]
    return x


class SeededWeakSet(weakref.WeakSet):
    """WeakSet whose iteration order is creation order permuted by a seed.

    The stock set iterates in an address-dependent order, so every permutation is a behaviour
    production can show; a seeded order gives diversity and reproducible replays."""

    def __init__(self, seed: int = 0):
        super().__init__()
        self._rng = random.Random(seed)
        self._key: dict[int, float] = {}

    def add(self, item):
        if id(item) not in self._key or item not in self:
            self._key[id(item)] = self._rng.random()
        super().add(item)

    def __iter__(self):
        items = list(super().__iter__())
        items.sort(key=lambda b: self._key.get(id(b), 0.0))
        return iter(items)


class LogCapture(logging.Handler):
    def __init__(self):
        super().__init__(level=logging.WARNING)
        self.records: list[tuple[str, str]] = []

    def emit(self, record):
        try:
            self.records.append((record.levelname, record.getMessage()[:300]))
        except Exception:
            pass


_RUN: 'Run | None' = None


# the moment an event's completion signal goes from unset to set (harness-side wrapper of the library method that decides it)
_orig_mark_complete = BaseEvent.event_mark_complete_if_all_handlers_completed


def _traced_mark_complete(self):
    sig = self._event_completed_signal
    before = sig.is_set() if sig is not None else False
    out = _orig_mark_complete(self)
    run = _RUN
    if run is not None and not before:
        sig = self._event_completed_signal
        if sig is not None and sig.is_set():
            tag = run.tag_of(self)
            if tag > 0:
                run.rec('sig_set', ev=tag)
    return out


BaseEvent.event_mark_complete_if_all_handlers_completed = _traced_mark_complete
_orig_get_nowait = S.CleanShutdownQueue.get_nowait


def _traced_get_nowait(q):
    item = _orig_get_nowait(q)
    run = _RUN
    if run is not None:
        bus = getattr(q, '_vbus', None)
        if bus is not None:
            by = run.party()
            # was the event this party is currently awaiting already complete when its drain took another queue entry?
            aw = run.open_await.get(by)
            done = None
            if aw:
                sig = aw[-1]._event_completed_signal
                done = bool(sig is not None and sig.is_set())
            run.rec('deq', bus=bus, ev=run.tag_of(item), by=by, awaited_done=done)
    return item


S.CleanShutdownQueue.get_nowait = _traced_get_nowait  # observation only


class TracedBus(EventBus):
    """EventBus observed at its public / overridable boundary. Behaviour is untouched."""

    _run: 'Run'
    _idx: int

    def dispatch(self, event):  # keeps __name__ == 'dispatch' so forwarding detection still works
        run = self._run
        by = run.cur_by
        run.cur_by = None
        tag = run.tag_of(event)
        if by is None:
            by = 'F'  # called by the library as a forwarding handler
        run.rec('enq_call', bus=self._idx, ev=tag, by=by)
        try:
            r = super().dispatch(event)
        except BaseException as ex:
            run.rec('enq_raise', bus=self._idx, ev=tag, by=by, exc=type(ex).__name__, hist=len(self.event_history), inhist=event.event_id in self.event_history)
            raise
        q = getattr(self.event_queue, '_queue', None) if self.event_queue is not None else None
        run.rec('enq_ok', bus=self._idx, ev=tag, by=by, hist=len(self.event_history), same=r is event, inq=q is not None and any(x is event for x in q))
        return r

    def _start(self):
        super()._start()
        q = self.event_queue
        if q is not None and getattr(q, '_vbus', None) is None:
            q._vbus = self._idx  # type: ignore[attr-defined]

    async def process_event(self, event, timeout=None):
        run = self._run
        tag = run.tag_of(event)
        pid = run.rec('proc_begin', bus=self._idx, ev=tag, drv=run.party(), path=list(event.event_path))
        run.open_procs.setdefault((self._idx, tag), []).append(pid)
        exc = None
        try:
            return await super().process_event(event, timeout=timeout)
        except BaseException as ex:
            exc = type(ex).__name__
            raise
        finally:
            run.open_procs[(self._idx, tag)].remove(pid)
            run.rec('proc_end', pid=pid, bus=self._idx, ev=tag, exc=exc, hist=len(self.event_history), snap=run.snap(event))
            if run.sc.get('watch_children'):
                # user code looking at the children of an event when that event's processing ends (`for c in event.event_children`)
                for c in list(event.event_children):
                    ct = run.tag_of(c)
                    if ct > 0:
                        run.rec('child_seen', ev=ct, of=tag, snap=run.snap(c))

    async def _default_wal_handler(self, event):
        run = self._run
        if not self.wal_path:
            return await super()._default_wal_handler(event)
        tag = run.tag_of(event)
        run.rec('wal_begin', bus=self._idx, ev=tag, path=list(event.event_path), parent=event.event_parent_id, eid=event.event_id, etype=event.event_type)
        exc = None
        try:
            return await super()._default_wal_handler(event)
        except BaseException as ex:
            exc = type(ex).__name__
            raise
        finally:
            run.rec('wal_end', bus=self._idx, ev=tag, exc=exc)

    def cleanup_event_history(self):
        run = self._run
        before = [(eid, e.event_status, e.event_created_at.timestamp()) for eid, e in self.event_history.items()]
        n = super().cleanup_event_history()
        if n or (self.max_history_size and len(before) > self.max_history_size):
            kept = set(self.event_history)
            run.rec(
                'evict',
                bus=self._idx,
                n=n,
                limit=self.max_history_size,
                before=[(run.tag_by_id.get(eid, -1), st, ts, eid in kept) for eid, st, ts in before],
            )
        return n


class TracedBus2(TracedBus):
    """A further subclass: programs commonly mix plain buses with subclasses of EventBus (class-level state that is created
    lazily through `cls` must still be shared by all of them)."""


class TracedBusSized(TracedBus):
    """A subclass that defines __len__ as its backlog (a natural thing for a queue-like object): such a bus is FALSY whenever its
    queue is empty - e.g. while it handles its only queued event."""

    def __len__(self) -> int:
        return self.event_queue.qsize() if self.event_queue is not None else 0


class Run:
    """One execution of one scenario."""

    def __init__(self, sc: dict, workdir: str | None = None):
        self.sc = sc
        self.tr: list[dict] = []
        self.n = 0
        self.buses: dict[int, TracedBus] = {}
        self.events: dict[int, BaseEvent] = {}
        self.tag_by_id: dict[str, int] = {}
        self.cur_by: Any = None
        self.open_procs: dict[tuple[int, int], list[int]] = {}
        self.task_role: dict[int, Any] = {}  # id(task) -> inv seq | 'S<k>' | 'A<i>'
        self.keep: list[Any] = []  # strong refs so ids are never reused within a run
        self.hmap: dict[str, str] = {}  # library handler_id -> harness label
        self.hidx: dict[str, int] = {}
        self.children: dict[int, list[int]] = {}
        self.spawned: list[asyncio.Task] = []
        self.n_gather = 0
        self.actor_cur: dict = {}
        self.open_await: dict = {}
        self.self_cancelled: set = set()
        self.actor_tasks: list[asyncio.Task] = []
        self.actor_state: dict[int, Any] = {}
        self.actor_events: dict[int, list] = {}
        self.stopped: set[int] = set()
        self.workdir = workdir
        self.loop: VLoop | None = None
        self.log = LogCapture()
        self.final: dict | None = None
        self.abort: str | None = None
        self.fn_of: dict[int, Any] = {}
        self.pre: dict[int, Any] = {}  # id(op) -> event object built before the program started (first execution of that op uses it)
        self.shared: dict[str, Any] = {}  # events published by handlers for sibling handlers to await
        self.W = float(sc.get('W') or (self._max_wait(sc) + 0.5))
        self.max_records = int(sc.get('max_records', 25000))

    # ---------------------------------------------------------------- utilities
    @staticmethod
    def _max_wait(sc) -> float:
        m = 0.3

        # explicit: every numeric delay/timeout lives at a known position
        def prog(ops):
            nonlocal m
            for op in ops:
                k = op[0]
                if k in ('sleep', 'busy'):
                    m = max(m, op[1])
                elif k == 'disp':
                    m = max(m, op[4] or 0)
                    o = op[5] if len(op) > 5 and op[5] else {}
                    if o.get('timeout'):
                        m = max(m, o['timeout'])
                elif k == 'occupy':
                    m = max(m, op[2])
                elif k in ('idle', 'stop', 'stop_bus', 'step'):
                    if op[2]:
                        m = max(m, op[2])
                elif k == 'expect':
                    if op[2].get('timeout'):
                        m = max(m, op[2]['timeout'])
                elif k == 'spawn':
                    prog(op[1])

        for h in sc.get('handlers', []):
            prog(h['prog'])
            if h.get('cleanup'):
                m = max(m, h['cleanup'])
        for a in sc.get('actors', []):
            prog(a)
        return m

    def rec(self, k: str, **kw) -> int:
        self.n += 1
        kw['k'] = k
        kw['seq'] = self.n
        kw['vt'] = self.loop._vt if self.loop is not None else 0.0
        self.tr.append(kw)
        if self.loop is not None:
            self.loop._same_t = 0  # observable progress: the zero-time livelock detector counts iterations WITHOUT any record
        if self.n > self.max_records and self.loop is not None:
            self.loop.max_steps = 0  # runaway program: the loop aborts with Hang('steps') at its next iteration
        return self.n

    def tag_of(self, event) -> int:
        return self.tag_by_id.get(event.event_id, -1)

    def party(self):
        """Who is executing right now: an async handler invocation (its seq), a spawned task 'S<k>',
        an actor 'A<i>', a bus run loop ('R', bus index) or its queue-get helper, or '?'."""
        t = asyncio.current_task()
        if t is None:
            return '?'
        r = self.task_role.get(id(t))
        if r is not None:
            return r
        name = t.get_name()
        for i, b in self.buses.items():
            if b._runloop_task is t:
                return f'R{i}'
        if name.endswith('._run_loop'):
            return 'R?'
        return 'T'  # library helper task (queue get, parallel execute_handler wrapper)

    def snap(self, e) -> tuple:
        """Hashable observable state of an event (status, signal, results)."""
        sig = e._event_completed_signal.is_set() if e._event_completed_signal is not None else False
        res = tuple(
            (self.hmap.get(hid, hid), r.status, repr(r.result)[:60] if not isinstance(r.result, BaseEvent) else 'EV', id(r.error) if r.error is not None else 0)
            for hid, r in e.event_results.items()
        )
        return (e.event_status, sig, res)

    def complete(self, tag: int, seen: set | None = None) -> list:
        """Reasons why event `tag` (with its harness-lineage descendants) is NOT complete ([] = complete)."""
        if seen is None:
            seen = set()
        if tag in seen:
            return []
        seen.add(tag)
        e = self.events[tag]
        why = []
        sig = e._event_completed_signal.is_set() if e._event_completed_signal is not None else False
        if not sig:
            why.append(('nosig', tag))
        for hid, r in e.event_results.items():
            if r.status not in ('completed', 'error'):
                why.append(('result', tag, self.hmap.get(hid, hid), r.status))
        for c in self.children.get(tag, []):
            why.extend(self.complete(c, seen))
        return why

    # ---------------------------------------------------------------- construction
    def getbus(self, i: int) -> TracedBus:
        if i not in self.buses:
            d = self.sc['buses'][i]
            wal = None
            if d.get('wal') and self.workdir:
                kind = d['wal']
                if kind == 'devfull':
                    wal = '/dev/full'
                elif kind == 'parentfile':  # the parent of the WAL path is a regular file: mkdir fails
                    blocker = os.path.join(self.workdir, f'{i}_{d["name"]}.blocker')
                    open(blocker, 'w').close()
                    wal = os.path.join(blocker, 'wal.jsonl')
                elif kind == 'isdir':  # the WAL path itself is a directory: open fails
                    wal = os.path.join(self.workdir, f'{i}_{d["name"]}.dir')
                    os.makedirs(wal, exist_ok=True)
                elif kind == 'nested':  # parent directories do not exist yet
                    wal = os.path.join(self.workdir, 'a', 'b', f'{i}_{d["name"]}.jsonl')
                else:
                    wal = os.path.join(self.workdir, f'{i}_{d["name"]}.jsonl')
            cls_ = TracedBusSized if d.get('sized') else (TracedBus2 if d.get('sub') else TracedBus)
            wctx = warnings.catch_warnings()
            wctx.__enter__()
            warnings.simplefilter('ignore')  # (name-conflict warnings of the constructor, also in strict-warnings programs)
            try:
                b = cls_(name=d['name'], parallel_handlers=bool(d.get('par')), max_history_size=d.get('hist'), wal_path=wal)
            except AssertionError:
                # a name the constructor rejects loudly (fine): the program goes on with a conventional one
                self.rec('bus_name_rejected', bus=i, name=d['name'])
                d = dict(d, name='X' + d['name'].lstrip('_'))
                self.sc['buses'][i] = d
                b = cls_(name=d['name'], parallel_handlers=bool(d.get('par')), max_history_size=d.get('hist'), wal_path=wal)
            finally:
                wctx.__exit__(None, None, None)
            b._run = self
            b._idx = i
            self.buses[i] = b
            self.rec('bus_new', bus=i, by=self.party(), name=b.name)
            self._install(i)
        return self.buses[i]

    def _install(self, i: int) -> None:
        b = self.buses[i]
        # registration order = order in scenario['reg'] if present else handlers then forwards
        for hi, h in enumerate(self.sc['handlers']):
            if h['bus'] == i and not h.get('late'):
                self._register(hi)
        for fi, (a, d, pat) in enumerate(self.sc.get('fwd', [])):
            if a == i:
                tgt = self.getbus(d)
                fn = tgt.dispatch
                with warnings.catch_warnings():
                    warnings.simplefilter('ignore')
                    b.on('*' if pat == '*' else (TYPES[pat] if isinstance(pat, int) else pat), fn)
                self.hmap[S.get_handler_id(fn, b)] = f'B{i}.fwd{fi}>B{d}'
                self.keep.append(fn)

    def _register(self, hi: int) -> None:
        """bus.on(pattern, handler) for scenario handler hi (at bus creation, or later by an actor's 'on' op)."""
        h = self.sc['handlers'][hi]
        i = h['bus']
        b = self.buses[i]
        root = self.root_of(hi)
        fn = self.fn_of.get(root)
        if fn is None:
            fn = self.fn_of[root] = self._make_handler(root, self.sc['handlers'][root])
            self.keep.append(fn)
        pat = h['pat']
        with warnings.catch_warnings():
            warnings.simplefilter('ignore')
            b.on('*' if pat == '*' else (TYPES[pat] if isinstance(pat, int) else pat), fn)
        hid = S.get_handler_id(fn, b)
        self.hmap[hid] = f'B{i}.h{root}'
        self.hidx[hid] = root

    def root_of(self, hi: int) -> int:
        """A handler entry with 'same_as' registers the SAME function object as that other entry (on another bus,
        under another pattern, or a second time)."""
        seen = set()
        while 'same_as' in self.sc['handlers'][hi] and hi not in seen:
            seen.add(hi)
            hi = self.sc['handlers'][hi]['same_as']
        return hi

    def _in_own_ancestry(self, target, event) -> bool:
        """A handler awaiting the event it is handling, or one of that event's ancestors, waits for itself: a user error
        (by construction never complete), not something to generate."""
        parent = {c: p for p, cs in self.children.items() for c in cs}
        cur = self.tag_of(event)
        tgt = self.tag_of(target)
        seen = set()
        while cur is not None and cur not in seen:
            if cur == tgt:
                return True
            seen.add(cur)
            cur = parent.get(cur)
        return False

    def bus_running_handler(self, default: int) -> int:
        """Which bus is executing the current handler: needed only for a function object registered on several buses.
        Read from the library's handler-id context ('<id(bus)>.<id(handler)>'); labelling only."""
        hid = S._current_handler_id_context.get()
        if hid:
            bid = hid.split('.')[0]
            for i, b in self.buses.items():
                if str(id(b)) == bid:
                    return i
        return default

    def mk(self, t: int, opts: dict | None = None, cur_event=None) -> BaseEvent:
        opts = opts or {}
        tag = len(self.events) + 1
        kw: dict[str, Any] = {'tag': tag, 'event_timeout': opts.get('timeout')}
        if opts.get('slack_timeout'):
            # a timeout that cannot expire in this program (minutes to hours of virtual time; programs last seconds): behaviourally
            # "no timeout" - recorded as such - but the library takes its timed code paths (not counted into the silence window W)
            kw['event_timeout'] = opts['slack_timeout']
        if opts.get('parent') == 'self':
            if cur_event is not None:
                kw['event_parent_id'] = cur_event.event_id  # explicit parent id that happens to be the event being handled
        elif opts.get('parent') == 'none':
            kw['event_parent_id'] = None  # the optional field passed through explicitly, holding nothing
        elif opts.get('parent'):
            kw['event_parent_id'] = opts['parent']
        if opts.get('rtype'):
            kw['event_result_type'] = {'str': str, 'int': int, 'list': list[int], 'dict': dict[str, int]}[opts['rtype']]
        if opts.get('prepath') is not None:
            # a caller-supplied event whose path already names buses (e.g. rebuilt from a WAL line and replayed)
            kw['event_path'] = [self.sc['buses'][b]['name'] for b in opts['prepath']]
        if opts.get('payload'):
            kw.update(_payload(opts['payload']))
        if opts.get('rehydrated'):
            # an event object rebuilt from the dump of a FINISHED event (WAL line, model_dump_json of a completed event) and dispatched
            # again: the dump carries event_processed_at but no results
            import datetime as _dt2
            kw['event_processed_at'] = _dt2.datetime.now(_dt2.UTC) - _dt2.timedelta(hours=1)
        if opts.get('age'):
            # the event object was constructed `age` seconds before it is dispatched (creation order != dispatch order)
            import datetime as _dt
            kw['event_created_at'] = _dt.datetime.now(_dt.UTC) - _dt.timedelta(seconds=opts['age'])
            if opts.get('naive'):
                # a caller-supplied timestamp without UTC offset (datetime.now() / an ISO string without offset): legal for the field
                kw['event_created_at'] = _dt.datetime.now() - _dt.timedelta(seconds=opts['age'])
        e = TYPES[t](**kw)
        self.events[tag] = e
        self.tag_by_id[e.event_id] = tag
        self.rec('mk', ev=tag, t=t, timeout=opts.get('timeout'), slack=opts.get('slack_timeout'), age=opts.get('age'), xparent=opts.get('parent'), payload=opts.get('payload'), prepath=opts.get('prepath'))
        return e

    # ---------------------------------------------------------------- shared op pieces
    def _dispatch(self, e, b: int, by, parent_tag: int | None) -> bool:
        tag = self.tag_of(e)
        self.rec('disp_call', ev=tag, bus=b, by=by, parent=parent_tag)
        try:
            bus = self.getbus(b)
            self.cur_by = by
            try:
                bus.dispatch(e)
            finally:
                self.cur_by = None
        except BaseException as ex:
            self.rec('disp_raise', ev=tag, bus=b, by=by, exc=type(ex).__name__)
            if isinstance(ex, (asyncio.CancelledError, KeyboardInterrupt, SystemExit)):
                raise
            return False
        self.rec('disp_ok', ev=tag, bus=b, by=by)
        if parent_tag is not None and tag != parent_tag:
            ch = self.children.setdefault(parent_tag, [])
            if tag not in ch:
                ch.append(tag)
        return True

    async def _await_event(self, e, by) -> None:
        tag = self.tag_of(e)
        self.rec('aw_begin', by=by, ev=tag)
        exc = None
        r = None
        self.open_await.setdefault(by, []).append(e)
        try:
            r = await e
        except BaseException as ex:
            exc = type(ex).__name__
            raise
        finally:
            self.open_await[by].remove(e)
            self.rec('aw_end', by=by, ev=tag, exc=exc, same=r is e, why=self.complete(tag) if exc is None else None, snap=self.snap(e))

    async def _prog(self, ops, by, event, parent_tag, is_handler: bool):
        """Interpret a handler / spawn program. Returns the program's return value."""
        later = []
        ret = f'r{by}'
        for i, op in enumerate(ops):
            k = op[0]
            self.rec('op', by=by, i=i, op=k)
            if k == 'sleep':
                await asyncio.sleep(op[1])
            elif k == 'busy':
                self.loop.advance(op[1])
            elif k == 'disp':
                _, t, b, mode, pre = op[:5]
                opts = op[5] if len(op) > 5 else None
                c = self.pre.pop(id(op), None)
                if c is None:  # (event classes may be falsy)
                    c = self.mk(t, opts, event)
                if not self._dispatch(c, b, by, parent_tag):
                    continue
                if opts and opts.get('share'):
                    self.shared[opts['share']] = c  # a sibling / another handler may await this event too
                if opts and opts.get('also') is not None:
                    self._dispatch(c, opts['also'], by, parent_tag)  # the same child object dispatched to a second bus
                if mode == 'fire':
                    continue
                if mode == 'later':
                    later.append(c)
                    continue
                if mode == 'acc':
                    # a result accessor with its own (short) timeout on a child that was dispatched but not awaited: inside a handler
                    # nothing can process the child meanwhile, so this runs into the timeout; the handler carries on
                    self.rec('acc_begin', by=by, ev=self.tag_of(c))
                    out_ = 'ret'
                    try:
                        await c.event_result(timeout=(opts or {}).get('acc_timeout', 0.05), raise_if_any=False, raise_if_none=False)
                    except TimeoutError:
                        out_ = 'timeout'
                    self.rec('acc_end', by=by, ev=self.tag_of(c), out=out_)
                    continue
                if pre is not None and pre >= 0:
                    await asyncio.sleep(pre)
                if opts and opts.get('wf_at') is not None:  # the bound given as an absolute virtual instant (fault enumeration)
                    left = opts['wf_at'] - self.loop.time()
                    opts = dict(opts, wf=left if left > 1e-9 else None)
                if opts and opts.get('wf') is not None:
                    # user code bounding its own wait: `await asyncio.wait_for(child, T)` inside a handler.  On expiry asyncio cancels
                    # the await (and with it whatever the inline drain was processing at that moment); the handler itself goes on.
                    try:
                        await asyncio.wait_for(self._await_event(c, by), opts['wf'])
                    except asyncio.TimeoutError:
                        self.rec('wf_timeout', by=by, ev=self.tag_of(c))
                    continue
                await self._await_event(c, by)
                if mode == 'await2':
                    await self._await_event(c, by)  # awaiting an already complete event again
                if mode == 'await_result' and c.event_completed_signal is not None and c.event_completed_signal.is_set():
                    # (only for a child that really is complete: the accessors wait on the completion signal without processing
                    # anything inline, so on an incomplete child (F1) they would block the handler for ever while it holds the lock)
                    self.rec('child_result', by=by, ev=self.tag_of(c))
                    await c.event_result()  # re-raises the child's first error (the original object) inside this handler
            elif k == 'redisp_actor':
                # a handler sends an event object that top-level code created (and has already dispatched once) to a further bus
                other = self.actor_events.get(op[1], [])
                if op[2] < len(other) and other[op[2]].event_path and not self._in_own_ancestry(other[op[2]], event):
                    # (from now on the handler's event waits for it, like for any event dispatched inside the handler)
                    self._dispatch(other[op[2]], op[3], by, parent_tag)
            elif k == 'redisp_parent':
                # a handler hands the event that caused its own event (its parent) to another bus: the parent becomes a child of this
                # handler's result - a cycle in the child graph
                me = self.tag_of(event)
                ptag = next((p_ for p_, cs in self.children.items() if me in cs), None)
                if ptag is not None:
                    self._dispatch(self.events[ptag], op[1], by, None)
            elif k == 'relay_children':
                # a second handler of the same event passes the children dispatched so far (by its sibling handlers) on to another bus
                for c in list(event.event_children):
                    if c in self.events.values():
                        self._dispatch(c, op[1], by, parent_tag)
            elif k == 'step':
                # user code driving a bus by hand from inside a handler: `await asyncio.wait_for(bus.step(), T)` (re-enters the lock)
                b = self.getbus(op[1])
                self.rec('step_begin', by=by, bus=op[1])
                try:
                    await asyncio.wait_for(b.step(), op[2])
                except asyncio.TimeoutError:
                    self.rec('step_timeout', by=by, bus=op[1])
                finally:
                    self.rec('step_end', by=by, bus=op[1])
            elif k == 'gather':
                # `await asyncio.gather(bus_a.dispatch(X()), bus_b.dispatch(Y()))` inside a handler: each child is awaited in a
                # helper task of its own (created by gather, inheriting the handler's context)
                kids = []
                for (t, b) in op[1]:
                    c = self.mk(t, None, event)
                    if self._dispatch(c, b, by, parent_tag):
                        kids.append(c)
                gids = [f'G{self.n_gather + j}' for j in range(len(kids))]
                self.n_gather += len(kids)
                self.rec('gather', by=by, gids=gids, evs=[self.tag_of(c) for c in kids])

                async def one(c, gid):
                    t_ = asyncio.current_task()
                    self.task_role[id(t_)] = gid
                    self.keep.append(t_)
                    await self._await_event(c, gid)

                if kids:
                    await asyncio.gather(*[one(c, g) for c, g in zip(kids, gids)])
            elif k == 'await_actor':
                other = self.actor_events.get(op[1], [])
                if op[2] < len(other) and other[op[2]].event_path and not self._in_own_ancestry(other[op[2]], event):
                    await self._await_event(other[op[2]], by)  # an event queued by top-level code, not part of this handler's tree
            elif k == 'await_shared':
                c = self.shared.get(op[1])
                if c is not None and c.event_path and not self._in_own_ancestry(c, event):
                    await self._await_event(c, by)
            elif k == 'idle':
                # (only in tasks created by a handler, after that handler has ended: a flush / tear-down task waiting for a bus)
                b = self.buses.get(op[1])
                if b is not None and not is_handler:
                    sq = self.n + 1
                    self.rec('idle_call', by=by, bus=op[1], timeout=op[2], call=sq)
                    await b.wait_until_idle(timeout=op[2])
                    self.rec('idle_ret', by=by, bus=op[1], call=sq, timeout=op[2], q=b.event_queue.qsize() if b.event_queue else 0,
                             pend=len(b.events_pending), started=len(b.events_started), running=b._is_running)
            elif k == 'stop_bus':
                b = self.buses.get(op[1])
                if b is not None:
                    sq = self.n + 1
                    self.rec('stop_call', by=by, bus=op[1], timeout=op[2], call=sq, running=b._is_running, clear=bool(len(op) > 3 and op[3]))
                    await b.stop(timeout=op[2], clear=bool(len(op) > 3 and op[3]))
                    self.stopped.add(op[1])
                    self.rec('stop_ret', by=by, bus=op[1], call=sq, timeout=op[2])
            elif k == 'many':
                _, t, b, n = op[:4]
                for _j in range(n):
                    c = self.mk(t, None)
                    self._dispatch(c, b, by, parent_tag)
            elif k == 'redisp':
                self._dispatch(event, op[1], by, None)
            elif k == 'recurse':
                _, limit, b, mode = op[:4]
                d = getattr(event, 'depth', 0)
                if d < limit:
                    c = self.mk(TYPES.index(type(event)), {'payload': {'depth': d + 1}})
                    if self._dispatch(c, b, by, parent_tag) and mode == 'await':
                        await self._await_event(c, by)
            elif k == 'raise_cancelled':
                # the handler awaits a task of its own that somebody cancelled: CancelledError propagates out of the HANDLER although
                # nobody cancelled the handler or the bus
                async def _inner():
                    await asyncio.sleep(10)
                t_ = asyncio.get_running_loop().create_task(_inner())
                self.keep.append(t_)
                await asyncio.sleep(op[1] if len(op) > 1 else 0)
                t_.cancel()
                self.self_cancelled.add(by)
                await t_
            elif k == 'raise':
                # (a StopIteration cannot leave an `async def` as itself - PEP 479 turns it into RuntimeError at the coroutine boundary,
                # before the bus sees it - so async handlers raise something else in its place)
                raise make_exc('ValueError' if op[1] == 'StopIter' else op[1], str(by))
            elif k == 'ret':
                ret = op[1]
                break
            elif k in ('ret_shared', 'ret_actor'):
                # a handler hands back an event it did NOT dispatch (a lookup returning the event a sibling / top-level code created)
                if k == 'ret_shared':
                    c = self.shared.get(op[1])
                else:
                    other = self.actor_events.get(op[1], [])
                    c = other[op[2]] if op[2] < len(other) else None
                if c is not None and c.event_path and not self._in_own_ancestry(c, event):
                    self.rec('ret_event', by=by, ev=self.tag_of(c))
                    ret = c
                    break
            elif k == 'retexc':
                ret = make_exc(op[1], str(by))
                self.keep.append(ret)
                self.rec('retexc', by=by, eid=id(ret))
                break
            elif k == 'bus':
                try:
                    got = self.buses_index(event.event_bus)
                except BaseException as ex:
                    got = type(ex).__name__
                self.rec('event_bus', by=by, got=got)
            elif k == 'spawn':
                sid = f'S{len(self.spawned)}'
                t = asyncio.get_running_loop().create_task(self._spawn_body(op[1], sid, event, parent_tag))
                self.task_role[id(t)] = sid
                self.spawned.append(t)
                self.rec('spawn', by=by, sid=sid)
            else:
                raise AssertionError(f'unknown op {op}')
        for c in later:
            await self._await_event(c, by)
        return ret

    def buses_index(self, bus) -> Any:
        for i, b in self.buses.items():
            if b is bus:
                return i
        return getattr(bus, 'name', '?')

    async def _spawn_body(self, ops, sid, event, parent_tag):
        self.rec('s_enter', sid=sid)
        out = 'ret'
        try:
            await self._prog(ops, sid, event, parent_tag, False)
        except asyncio.CancelledError:
            out = 'cancel'
            raise
        except BaseException:
            out = 'raise'
        finally:
            self.rec('s_exit', sid=sid, out=out)

    def _sync_prog(self, ops, by, event, parent_tag):
        ret = f'r{by}'
        for i, op in enumerate(ops):
            k = op[0]
            self.rec('op', by=by, i=i, op=k)
            if k == 'busy':
                self.loop.advance(op[1])
            elif k == 'disp':
                _, t, b = op[:3]
                opts = op[5] if len(op) > 5 else None
                c = self.pre.pop(id(op), None)
                if c is None:  # (event classes may be falsy)
                    c = self.mk(t, opts, event)
                if self._dispatch(c, b, by, parent_tag):
                    if opts and opts.get('share'):
                        self.shared[opts['share']] = c
                    if opts and opts.get('also') is not None:
                        self._dispatch(c, opts['also'], by, parent_tag)
            elif k == 'many':
                _, t, b, n = op[:4]
                for _j in range(n):
                    self._dispatch(self.mk(t, None), b, by, parent_tag)
            elif k == 'redisp':
                self._dispatch(event, op[1], by, None)
            elif k == 'recurse':
                _, limit, b, mode = op[:4]
                d = getattr(event, 'depth', 0)
                if d < limit:
                    self._dispatch(self.mk(TYPES.index(type(event)), {'payload': {'depth': d + 1}}), b, by, parent_tag)
            elif k == 'raise':
                raise make_exc(op[1], str(by))
            elif k == 'ret':
                return op[1]
            elif k == 'retexc':
                ex = make_exc(op[1], str(by))
                self.keep.append(ex)
                self.rec('retexc', by=by, eid=id(ex))
                return ex
            elif k == 'bus':
                try:
                    got = self.buses_index(event.event_bus)
                except BaseException as ex:
                    got = type(ex).__name__
                self.rec('event_bus', by=by, got=got)
            elif k == 'relay_children':
                for c in list(event.event_children):
                    if c in self.events.values():
                        self._dispatch(c, op[1], by, parent_tag)
            elif k == 'redisp_parent':
                me = self.tag_of(event)
                ptag = next((p_ for p_, cs in self.children.items() if me in cs), None)
                if ptag is not None:
                    self._dispatch(self.events[ptag], op[1], by, None)
            elif k in ('sleep', 'spawn', 'await_shared', 'await_actor', 'stop_bus', 'gather', 'step', 'redisp_actor', 'raise_cancelled', 'ret_shared', 'ret_actor', 'idle'):
                continue  # not expressible in a sync handler
            else:
                raise AssertionError(f'unknown op {op}')
        return ret

    # ---------------------------------------------------------------- handlers
    def _h_enter(self, hi: int, bi: int, event) -> int:
        tag = self.tag_of(event)
        op = self.open_procs.get((bi, tag)) or [None]
        return self.rec(
            'h_enter', h=hi, bus=bi, ev=tag, oid=id(event), pid=op[-1], party=self.party(),
            hl=[len(b.event_history) for b in self.buses.values()], path=list(event.event_path),
        )

    def _h_exit(self, inv: int, out: str, exc_id: int = 0, exc_type: str | None = None) -> None:
        self.rec('h_exit', inv=inv, out=out, eid=exc_id, et=exc_type, hl=[len(b.event_history) for b in self.buses.values()])

    def _make_handler(self, hi: int, h: dict):
        run = self
        home = h['bus']
        multi_bus = any(run.root_of(j) == hi and hj['bus'] != home for j, hj in enumerate(self.sc['handlers']))
        kind = h.get('kind', 'async')
        prog = h['prog']

        async def a_body(event):
            bi = run.bus_running_handler(home) if multi_bus else home
            inv = run._h_enter(hi, bi, event)
            t = asyncio.current_task()
            prev = run.task_role.get(id(t))
            run.task_role[id(t)] = inv
            run.keep.append(t)
            out, eid, et = 'ret', 0, None
            try:
                return await run._prog(prog, inv, event, run.tag_of(event), True)
            except asyncio.CancelledError as ex:
                if inv in run.self_cancelled:
                    out, eid, et = 'raise', id(ex), 'CancelledError'
                    run.keep.append(ex)
                    raise
                out = 'cancel'
                run.rec('h_cancelled', inv=inv)
                if h.get('cleanup'):
                    # user code that needs time to unwind after cancellation (awaited cleanup in finally / except)
                    try:
                        await asyncio.sleep(h['cleanup'])
                        run.rec('h_cleanup_done', inv=inv)
                    except asyncio.CancelledError:
                        run.rec('h_cleanup_interrupted', inv=inv)
                if h.get('cleanup_disp'):
                    # user code that reports its own cancellation: an event dispatched from the except/finally block of the
                    # cancelled handler (still inside that handler)
                    t_, b_ = h['cleanup_disp']
                    run.rec('op', by=inv, i=-1, op='cleanup_disp')
                    run._dispatch(run.mk(t_, None, event), b_, inv, run.tag_of(event))
                raise
            except BaseException as ex:
                out, eid, et = 'raise', id(ex), type(ex).__name__
                run.keep.append(ex)
                raise
            finally:
                if prev is None:
                    run.task_role.pop(id(t), None)
                else:
                    run.task_role[id(t)] = prev
                run._h_exit(inv, out, eid, et)

        def s_body(event):
            bi = run.bus_running_handler(home) if multi_bus else home
            inv = run._h_enter(hi, bi, event)
            out, eid, et = 'ret', 0, None
            try:
                return run._sync_prog(prog, inv, event, run.tag_of(event))
            except BaseException as ex:
                out, eid, et = 'raise', id(ex), type(ex).__name__
                run.keep.append(ex)
                raise
            finally:
                run._h_exit(inv, out, eid, et)

        name = f'h{hi}'
        if kind == 'async' and h.get('retry'):
            # an event handler decorated with @retry(semaphore_limit=...) (documented use): the library starts the handler - and its
            # timeout clock - at 'h_call'; the body is entered only once a slot of the named semaphore is free
            rt = h['retry']
            inner = H.retry(retries=0, wait=0, timeout=rt.get('attempt_timeout', 60.0), semaphore_limit=rt.get('limit', 1), semaphore_name=f"hs_{rt.get('name', 's')}",
                            semaphore_lax=rt.get('lax', True), semaphore_timeout=rt.get('sem_timeout'))(a_body)

            async def handler(event):
                run.rec('h_call', h=hi, ev=run.tag_of(event), bus=home)
                return await inner(event)
        elif kind == 'async':
            async def handler(event):
                return await a_body(event)
        elif kind == 'sync':
            def handler(event):
                return s_body(event)
        elif kind in ('abusm', 'sbusm') and self.buses.get(home) is None:
            # (registered on another bus before its own bus exists: a plain function then)
            if kind == 'abusm':
                async def handler(event):
                    return await a_body(event)
            else:
                def handler(event):  # type: ignore[misc]
                    return s_body(event)
        elif kind in ('abusm', 'sbusm'):
            # a method bound to the BUS itself (an EventBus subclass / instance that registers its own methods as handlers)
            import types
            bus = self.buses[home]
            if kind == 'abusm':
                async def m(self_bus, event):
                    return await a_body(event)
            else:
                def m(self_bus, event):  # type: ignore[misc]
                    return s_body(event)
            m.__name__ = name
            m.__qualname__ = name
            return types.MethodType(m, bus)
        elif kind in ('amethod', 'smethod', 'aclassm', 'sclassm'):
            if kind == 'amethod':
                class Holder:
                    async def m(self, event):
                        return await a_body(event)
                obj = Holder()
                self.keep.append(obj)
                handler = obj.m
            elif kind == 'smethod':
                class Holder:  # type: ignore[no-redef]
                    def m(self, event):
                        return s_body(event)
                obj = Holder()
                self.keep.append(obj)
                handler = obj.m
            elif kind == 'aclassm':
                class Holder:  # type: ignore[no-redef]
                    @classmethod
                    async def m(cls, event):
                        return await a_body(event)
                handler = Holder.m
            else:
                class Holder:  # type: ignore[no-redef]
                    @classmethod
                    def m(cls, event):
                        return s_body(event)
                handler = Holder.m
            Holder.__name__ = f'H{hi}'
            getattr(Holder.m, '__func__', Holder.m).__name__ = name
            return handler
        else:
            raise AssertionError(kind)
        handler.__name__ = name
        handler.__qualname__ = name
        return handler

    # ---------------------------------------------------------------- actors
    async def _actor(self, ai: int, ops) -> None:
        by = f'A{ai}'
        mine: list[BaseEvent] = []
        self.actor_events[ai] = mine
        self.actor_state[ai] = None
        for i, op in enumerate(ops):
            k = op[0]
            self.actor_state[ai] = (i, k)
            sq = self.rec('a_begin', by=by, i=i, op=k)
            self.actor_cur[ai] = (sq, op)
            res: dict[str, Any] = {}
            try:
                if k == 'sleep':
                    await asyncio.sleep(op[1])
                elif k == 'disp':
                    _, t, b, mode, post = op[:5]
                    opts = op[5] if len(op) > 5 else None
                    e = self.mk(t, opts)
                    mine.append(e)
                    ok = self._dispatch(e, b, by, None)
                    res['ev'] = self.tag_of(e)
                    if ok and mode == 'await':
                        await self._await_event(e, by)
                    if post:
                        await asyncio.sleep(post)
                elif k == 'many':
                    _, t, b, n = op[:4]
                    for _j in range(n):
                        e = self.mk(t, None)
                        mine.append(e)
                        self._dispatch(e, b, by, None)
                elif k == 'await':
                    if op[1] < len(mine):
                        e = mine[op[1]]
                        res['ev'] = self.tag_of(e)
                        if e.event_path:  # only events that were accepted somewhere
                            await self._await_event(e, by)
                elif k == 'access':
                    if op[1] < len(mine) and mine[op[1]].event_path:
                        e = mine[op[1]]
                        res['ev'] = self.tag_of(e)
                        await self._await_event(e, by)
                        for acc in ('event_result', 'event_results_list', 'event_results_by_handler_id', 'event_results_by_handler_name', 'event_results_flat_dict', 'event_results_flat_list'):
                            for flags in ({'raise_if_any': False, 'raise_if_none': False}, {}):
                                try:
                                    await getattr(e, acc)(**flags)
                                except BaseException as ex:
                                    if isinstance(ex, asyncio.CancelledError):
                                        raise
                        # user code that copies / compares / hashes / dumps a finished event must not change it
                        import copy as _copy
                        for fn in (_copy.copy, lambda x: x.model_copy(), lambda x: x.model_copy(update={'event_timeout': 1.5}), lambda x: x.model_dump(), lambda x: x.model_dump_json(),
                                   hash, repr, str, lambda x: x == x):
                            try:
                                self.keep.append(fn(e))
                            except BaseException as ex:  # noqa: BLE001
                                if isinstance(ex, asyncio.CancelledError):
                                    raise
                        self.rec('accessed', by=by, ev=res['ev'], snap=self.snap(e))
                elif k == 'await_hresult':
                    # `await event.event_results[handler_id]`: waiting for ONE handler's result object (its own timeout clock starts now)
                    other = self.actor_events.get(op[1], [])
                    if op[2] < len(other):
                        e = other[op[2]]
                        rs = list(e.event_results.values())
                        if -len(rs) <= op[3] < len(rs):
                            res['ev'] = self.tag_of(e)
                            try:
                                await rs[op[3]]
                            except asyncio.CancelledError:
                                raise
                            except BaseException as ex:  # noqa: BLE001
                                res['exc_h'] = type(ex).__name__
                            self.rec('accessed', by=by, ev=res['ev'], snap=self.snap(e))
                elif k == 'await_of':
                    other = self.actor_events.get(op[1], [])
                    if op[2] < len(other) and other[op[2]].event_path:
                        res['ev'] = self.tag_of(other[op[2]])
                        await self._await_event(other[op[2]], by)
                elif k == 'redisp_rejected':
                    rej = [e for e in mine if not e.event_path]
                    if rej:
                        res['ev'] = self.tag_of(rej[0])
                        self._dispatch(rej[0], op[1], by, None)
                elif k == 'redisp':
                    if op[1] < len(mine):
                        e = mine[op[1]]
                        res['ev'] = self.tag_of(e)
                        self._dispatch(e, op[2], by, None)
                elif k == 'on_fwd':
                    # a forward attached while the program is running: bus_a.on(pattern, bus_b.dispatch) after events have been processed
                    a_, d_, pat_ = self.sc['late_fwd'][op[1]]
                    src, tgt = self.getbus(a_), self.getbus(d_)
                    fn = tgt.dispatch
                    with warnings.catch_warnings():
                        warnings.simplefilter('ignore')
                        src.on('*' if pat_ == '*' else (TYPES[pat_] if isinstance(pat_, int) else pat_), fn)
                    self.hmap[S.get_handler_id(fn, src)] = f'B{a_}.lfwd{op[1]}>B{d_}'
                    self.keep.append(fn)
                    self.rec('on_fwd', by=by, k_=op[1], src=a_, dst=d_)
                elif k == 'on':
                    # a handler registered while the program is running (events of its type may already be queued / processed)
                    h = self.sc['handlers'][op[1]]
                    self.getbus(h['bus'])
                    self._register(op[1])
                    self.rec('on', by=by, h=op[1], bus=h['bus'])
                elif k == 'idle':
                    b = self.getbus(op[1])
                    self.rec('idle_call', by=by, bus=op[1], timeout=op[2], call=sq, q0=b.event_queue.qsize() if b.event_queue else 0, pend0=len(b.events_pending), started0=len(b.events_started),
                             unfinished0=getattr(b.event_queue, '_unfinished_tasks', None), running0=b._is_running)
                    await b.wait_until_idle(timeout=op[2])
                    self.rec('idle_ret', by=by, bus=op[1], call=sq, timeout=op[2], q=b.event_queue.qsize() if b.event_queue else 0,
                             pend=len(b.events_pending), started=len(b.events_started), running=b._is_running)
                elif k == 'stop':
                    b = self.getbus(op[1])
                    self.rec('stop_call', by=by, bus=op[1], timeout=op[2], call=sq, running=b._is_running)
                    await b.stop(timeout=op[2], clear=bool(len(op) > 3 and op[3]))
                    self.stopped.add(op[1])
                    self.rec('stop_ret', by=by, bus=op[1], call=sq, timeout=op[2])
                elif k == 'expect':
                    await self._expect(by, op, res)
                elif k == 'occupy':
                    # plain code (no event involved) calling a function that shares a @retry semaphore with event handlers
                    async def _occ():
                        await asyncio.sleep(op[2])
                    await H.retry(retries=0, wait=0, timeout=60.0, semaphore_limit=op[3] if len(op) > 3 else 1, semaphore_name=f'hs_{op[1]}')(_occ)()
                elif k == 'cancel_actor':
                    t = self.actor_tasks[op[1]] if op[1] < len(self.actor_tasks) else None
                    if t is not None and not t.done():
                        t.cancel()
                        res['cancelled'] = op[1]
                elif k == 'cancel_runloop':
                    # (op[3]: let that many loop iterations pass first - the cancellation then lands INSIDE the multi-step work that
                    # starts at this virtual instant, e.g. between the thread hand-offs of a WAL append)
                    for _y in range(op[3] if len(op) > 3 else 0):
                        await asyncio.sleep(0)
                    b = self.buses.get(op[1])
                    if b is not None and b._runloop_task is not None and not b._runloop_task.done():
                        t = b._runloop_task
                        self.keep.append(t)
                        t.cancel()
                        res['task'] = True
                        csq = self.rec('rl_cancel', bus=op[1])
                        done, _p = await asyncio.wait({t}, timeout=op[2] if len(op) > 2 else 1.0)
                        res['done'] = bool(done)
                        self.rec('rl_cancel_wait', bus=op[1], done=bool(done), cancel_seq=csq, waited=op[2] if len(op) > 2 else 1.0)
                else:
                    raise AssertionError(f'unknown actor op {op}')
            except asyncio.CancelledError:
                self.rec('a_end', by=by, i=i, op=k, exc='cancel', **res)
                self.actor_state[ai] = 'cancelled'
                return
            except BaseException as ex:
                self.rec('a_end', by=by, i=i, op=k, exc=type(ex).__name__, msg=str(ex)[:200], **res)
                continue
            self.rec('a_end', by=by, i=i, op=k, exc=None, **res)
        self.actor_state[ai] = 'done'

    async def _expect(self, by, op, res) -> None:
        _, bi, spec = op
        b = self.getbus(bi)
        t = spec['type']
        et = TYPES[t] if isinstance(t, int) else t
        key = TYPES[t].__name__ if isinstance(t, int) else t

        def pred(ps, default):
            if ps is None:
                return None
            if ps[0] == 'mod':
                return lambda e, m=ps[1], r=ps[2]: getattr(e, 'tag', 0) % m == r
            if ps[0] == 'true':
                return lambda e: True
            if ps[0] == 'false':
                return lambda e: False
            if ps[0] == 'raise':
                def boom(e, m=ps[1], r=ps[2]):
                    if getattr(e, 'tag', 0) % m == r:
                        raise ValueError('predicate raised')
                    return default
                return boom
            raise AssertionError(ps)

        class _FalsyFilter:
            """A filter that is a callable OBJECT and happens to be falsy (an allow-list built as a set subclass that is still empty
            when expect() is called, anything defining __len__ / __bool__): it is a filter all the same."""

            def __init__(self, fn):
                self.fn = fn

            def __call__(self, e):
                return self.fn(e)

            def __len__(self):
                return 0

        kw = {}
        for name, default in (('include', True), ('exclude', False), ('predicate', True)):
            p = pred(spec.get(name), default)
            if p is not None:
                kw[name] = _FalsyFilter(p) if spec.get('falsy_filters') else p
        before = {k: len(v) for k, v in b.handlers.items()}
        sq = self.rec('exp_call', by=by, bus=bi, spec=spec, key=key, reg=before.get(key, 0))
        out, got = None, None
        try:
            r = await b.expect(et, timeout=spec.get('timeout'), **kw)
            got = self.tag_of(r)
            out = 'match'
        except TimeoutError:
            out = 'timeout'
        except asyncio.CancelledError:
            out = 'cancel'
            raise
        except BaseException as ex:
            out = 'exc:' + type(ex).__name__
        finally:
            self.rec('exp_ret', by=by, bus=bi, call=sq, out=out, got=got, reg=len(b.handlers.get(key, [])), regall={k: len(v) for k, v in b.handlers.items() if v})
        res['out'] = out
        res['got'] = got

    # ---------------------------------------------------------------- main
    async def _main(self) -> None:
        sc = self.sc
        for i, d in enumerate(sc['buses']):
            if not d.get('lazy'):
                self.getbus(i)
        loop = asyncio.get_running_loop()
        # event objects built ahead of time (before every event they will be dispatched under exists) and handed to the handler
        # that dispatches them: construction order (and with it the time-ordered event id) is not dispatch order
        for h in sc.get('handlers', []):
            for op in h['prog']:
                if op[0] == 'disp' and len(op) > 5 and op[5] and op[5].get('prebuilt') and not op[5].get('parent'):
                    self.pre[id(op)] = self.mk(op[1], op[5])
        for ai, ops in enumerate(sc.get('actors', [])):
            t = loop.create_task(self._actor(ai, ops))
            self.task_role[id(t)] = f'A{ai}'
            self.actor_tasks.append(t)
        cap = float(sc.get('cap', 400.0))
        # silence detection: nothing recorded for W virtual seconds
        while True:
            n = self.n
            await asyncio.sleep(self.W)
            if self.n == n:
                break
            if loop.time() > cap:
                self.rec('nonquiet')
                self.abort = 'nonquiet'
                break
        self.rec('quiet')
        for ai, t in enumerate(self.actor_tasks):
            if not t.done():
                self.rec('a_blocked', by=f'A{ai}', at=self.actor_state.get(ai))
                sq_, op_ = self.actor_cur.get(ai, (None, None))
                if op_ is not None and op_[0] == 'idle' and op_[1] in self.buses:
                    # a wait_until_idle() caller still blocked after W virtual seconds of complete silence: record what its bus
                    # looks like now, BEFORE the harness's own probe below calls wait_until_idle() on the same bus (that call
                    # can release a caller the library had stranded)
                    b = self.buses[op_[1]]
                    self.rec('idle_hang', by=f'A{ai}', bus=op_[1], call=sq_, q=b.event_queue.qsize() if b.event_queue else 0,
                             pend=[self.tag_of(e) for e in b.events_pending], started=[self.tag_of(e) for e in b.events_started],
                             unfinished=getattr(b.event_queue, '_unfinished_tasks', None))
        for si, t in enumerate(self.spawned):
            if not t.done():
                self.rec('s_blocked', sid=f'S{si}')
        # idle probes (bounded): at global quiescence every running bus must report idle promptly
        if not sc.get('no_idle_probe'):
            for i, b in list(self.buses.items()):
                if i in self.stopped or not b._is_running:
                    continue
                sq = self.rec('idle_call', by='M', bus=i, timeout=None, call=None)
                t = loop.create_task(b.wait_until_idle())
                done, _p = await asyncio.wait({t}, timeout=self.W)
                if done:
                    self.rec('idle_ret', by='M', bus=i, call=sq, timeout=None, q=b.event_queue.qsize() if b.event_queue else 0,
                             pend=len(b.events_pending), started=len(b.events_started), running=b._is_running)
                else:
                    self.rec('idle_hang', by='M', bus=i, call=sq, q=b.event_queue.qsize() if b.event_queue else 0,
                             pend=[self.tag_of(e) for e in b.events_pending], started=[self.tag_of(e) for e in b.events_started],
                             unfinished=getattr(b.event_queue, '_unfinished_tasks', None))
                    t.cancel()
        self.rec('final')
        self.final = self._final_snapshot()
        # tear down
        for i, b in list(self.buses.items()):
            t = loop.create_task(b.stop(timeout=0, clear=True))
            await asyncio.wait({t}, timeout=1.0)

    def _final_snapshot(self) -> dict:
        ev = {}
        for tag, e in self.events.items():
            ev[tag] = {
                'id': e.event_id,
                'parent': self.tag_by_id.get(e.event_parent_id, e.event_parent_id) if e.event_parent_id else None,
                'path': list(e.event_path),
                'sig': e._event_completed_signal.is_set() if e._event_completed_signal is not None else None,
                'status': e.event_status,
                'results': [
                    {
                        'hid': self.hmap.get(hid, hid), 'bus': r.eventbus_name, 'name': r.handler_name, 'status': r.status,
                        'res': repr(r.result)[:80] if not isinstance(r.result, BaseEvent) else ('EV', self.tag_of(r.result)),
                        'err': type(r.error).__name__ if r.error is not None else None, 'eid': id(r.error) if r.error is not None else 0,
                        'cause': id(r.error.__cause__) if r.error is not None and r.error.__cause__ is not None else 0,
                        'children': [self.tag_of(c) for c in r.event_children],
                    }
                    for hid, r in e.event_results.items()
                ],
                'snap': self.snap(e),
            }
        bs = {}
        for i, b in self.buses.items():
            wal = None
            if b.wal_path and not os.path.isfile(b.wal_path):
                wal = None  # never read /dev/full or a directory
            elif b.wal_path:
                try:
                    with open(b.wal_path, encoding='utf-8') as f:
                        wal = f.read(50_000_000)
                except FileNotFoundError:
                    wal = None
                except Exception as ex:  # directory etc.
                    wal = f'!{type(ex).__name__}'
            bs[i] = {
                'name': b.name, 'hist': [self.tag_of(e) for e in b.event_history.values()], 'q': b.event_queue.qsize() if b.event_queue else 0,
                'running': b._is_running, 'reg': {k: len(v) for k, v in b.handlers.items() if v}, 'wal': wal,
                'limit': b.max_history_size,
            }
        return {'events': ev, 'buses': bs, 'log': list(self.log.records)}


def reset_globals(seed: int) -> None:
    for b in list(EventBus.all_instances):
        b._is_running = False
    EventBus.all_instances = SeededWeakSet(seed)
    S._global_eventbus_lock = None
    H.GLOBAL_RETRY_SEMAPHORES.clear()


def run_scenario(sc: dict, workdir: str | None = None, keep_run: bool = False):
    """Execute one scenario in a fresh virtual loop. Returns (trace, final, meta)."""
    global _RUN
    patch_threads()
    lp = sc.get('loop', {})
    seed = int(sc.get('seed', 0))
    reset_globals(seed)
    wd = None
    if workdir and any(b.get('wal') for b in sc['buses']):
        wd = os.path.join(workdir, f'sc{os.getpid()}')
        shutil.rmtree(wd, ignore_errors=True)
        os.makedirs(wd, exist_ok=True)
    run = Run(sc, wd)
    loop = VLoop(seed=seed, jitter=lp.get('jitter', 0.0), cpu=lp.get('cpu', 0.0), horizon=lp.get('horizon', 1500.0), max_steps=lp.get('max_steps', 400_000), livelock=lp.get('livelock', 25_000))
    run.loop = loop
    loop.set_exception_handler(lambda l, ctx: run.rec('loop_exc', msg=str(ctx.get('message'))[:200], exc=type(ctx.get('exception')).__name__ if ctx.get('exception') else None))
    asyncio.set_event_loop(loop)
    lg = logging.getLogger('bubus')
    lg.addHandler(run.log)
    old_prop = lg.propagate
    lg.propagate = False
    _RUN = run
    hang = None
    restore_io = _install_io_fault(sc.get('wal_fault'), run)
    wmain = warnings.catch_warnings()
    wmain.__enter__()
    if sc.get('strict_warnings'):
        # the program runs with warnings promoted to errors (python -W error::UserWarning, pytest filterwarnings=error)
        warnings.simplefilter('error', UserWarning)
    try:
        loop.run_until_complete(run._main())
    except Hang as h:
        hang = h.kind
        run.rec('hang', kind=h.kind, msg=str(h))
        if run.final is None:
            try:
                run.final = run._final_snapshot()
            except Exception:
                run.final = {'events': {}, 'buses': {}, 'log': []}
    finally:
        for b in list(run.buses.values()):
            b._is_running = False
            if b.event_queue is not None:
                try:
                    b.event_queue.shutdown()
                except Exception:
                    pass
        wmain.__exit__(None, None, None)
        left = hard_close(loop)
        if sc.get('second_loop') and hang is None and run.final is not None:
            try:
                run.final['second_loop'] = _second_loop(run, seed)
            except BaseException as ex:  # noqa: BLE001
                run.final['second_loop'] = [{'error': type(ex).__name__}]
        restore_io()
        _RUN = None
        lg.removeHandler(run.log)
        lg.propagate = old_prop
        if wd:
            shutil.rmtree(wd, ignore_errors=True)
    meta = {'hang': hang, 'abort': run.abort, 'steps': loop.steps, 'vt': loop._vt, 'jumps': loop.time_jumps, 'left': left, 'W': run.W, 'thread_jobs': loop.thread_jobs}
    tr, final = run.tr, run.final
    if keep_run:
        return tr, final, meta, run
    run.keep.clear()
    run.events.clear()
    run.buses.clear()
    return tr, final, meta


def _second_loop(run: 'Run', seed: int) -> list:
    """The program goes on in a second event loop (a second asyncio.run()): every event that was complete when the first loop
    ended is looked at again from there - completion signal, status, results - and awaited."""
    out: list = []
    loop2 = VLoop(seed=seed + 1, horizon=200.0, max_steps=200_000)
    asyncio.set_event_loop(loop2)

    async def look():
        for tag, e in list(run.events.items()):
            f = run.final['events'].get(tag)
            if not f or not f.get('sig'):
                continue
            rec = {'ev': tag, 'snap_before': f['snap']}
            try:
                sig = e.event_completed_signal
                rec['sig'] = bool(sig is not None and sig.is_set())
            except BaseException as ex:  # noqa: BLE001
                rec['sig'] = type(ex).__name__
            try:
                r = await asyncio.wait_for(e, 5.0)
                rec['await'] = 'same' if r is e else 'other'
            except BaseException as ex:  # noqa: BLE001
                rec['await'] = type(ex).__name__
            rec['status'] = e.event_status
            rec['snap'] = run.snap(e)
            out.append(rec)

    try:
        loop2.run_until_complete(look())
    except Hang as h:
        out.append({'error': 'hang:' + h.kind})
    finally:
        hard_close(loop2)
    return out


def _install_io_fault(fault, run):
    """Source-free failpoint: make the n-th anyio.open_file() / the n-th AsyncFile.write() raise OSError."""
    if not fault:
        return lambda: None
    import anyio

    orig_open = anyio.open_file
    state = {'open': 0, 'write': 0}

    def bus_of(path):
        for i, b in run.buses.items():
            if b.wal_path is not None and str(b.wal_path) == str(path):
                return i
        return None

    async def open_file(*a, **kw):
        state['open'] += 1
        path = a[0] if a else kw.get('file')
        if fault['kind'] == 'open' and state['open'] in fault['n']:
            run.rec('io_fault', kind='open', n=state['open'], bus=bus_of(path))
            raise OSError(5, 'injected open failure')
        f = await orig_open(*a, **kw)
        if fault['kind'] == 'write':
            orig_write = f.write

            async def write(data):
                state['write'] += 1
                if state['write'] in fault['n']:
                    run.rec('io_fault', kind='write', n=state['write'], bus=bus_of(path))
                    raise OSError(28, 'injected write failure')
                return await orig_write(data)
            f.write = write  # type: ignore[method-assign]
        return f

    anyio.open_file = open_file

    def restore():
        anyio.open_file = orig_open
    return restore


_gc_n = 0


def maybe_gc(every: int = 50) -> None:
    global _gc_n
    _gc_n += 1
    if _gc_n % every == 0:
        gc.collect()


def run_runner_exit(sc: dict, t_exit: float):
    """The real asyncio.run() path: the program's main coroutine returns at virtual instant t_exit leaving
    buses running and handlers in flight; asyncio.Runner.close() then cancels every task and waits for them.
    Returns (closed_ok, detail)."""
    global _RUN
    patch_threads()
    seed = int(sc.get('seed', 0))
    reset_globals(seed)
    run = Run(sc, None)
    holder = {}

    def factory():
        loop = VLoop(seed=seed, horizon=600.0, max_steps=400_000, livelock=40_000)
        loop.set_exception_handler(lambda l, ctx: None)
        holder['loop'] = loop
        run.loop = loop
        return loop

    async def main():
        for i, d in enumerate(sc['buses']):
            if not d.get('lazy'):
                run.getbus(i)
        loop = asyncio.get_running_loop()
        for ai, ops in enumerate(sc.get('actors', [])):
            t = loop.create_task(run._actor(ai, ops))
            run.task_role[id(t)] = f'A{ai}'
            run.actor_tasks.append(t)
        await asyncio.sleep(t_exit)
        run.rec('main_returns')

    lg = logging.getLogger('bubus')
    lg.addHandler(run.log)
    old_prop = lg.propagate
    lg.propagate = False
    _RUN = run
    detail = {'t_exit': t_exit}
    ok = True
    runner = asyncio.Runner(loop_factory=factory)
    try:
        try:
            runner.run(main())
        except Hang as h:
            ok = False
            detail['phase'] = 'run'
            detail['hang'] = str(h)
        loop = holder.get('loop')
        if loop is not None and ok:
            detail['vt_before_close'] = loop._vt
            detail['running_buses'] = [i for i, b in run.buses.items() if b._is_running]
            detail['tasks_before_close'] = len([t for t in asyncio.all_tasks(loop) if not t.done()])
            loop.horizon = loop._vt + 30.0
            loop.max_steps = loop.steps + 100_000
            loop._same_t = 0
            try:
                runner.close()
                detail['vt_after_close'] = loop._vt
            except Hang as h:
                ok = False
                detail['phase'] = 'close'
                detail['hang'] = str(h)
                detail['stuck_tasks'] = [t.get_name()[:60] for t in asyncio.all_tasks(loop) if not t.done()][:6]
    finally:
        loop = holder.get('loop')
        for b in list(run.buses.values()):
            b._is_running = False
            if b.event_queue is not None:
                try:
                    b.event_queue.shutdown()
                except Exception:
                    pass
        if loop is not None and not loop.is_closed():
            hard_close(loop)
        asyncio.set_event_loop(None)
        _RUN = None
        lg.removeHandler(run.log)
        lg.propagate = old_prop
    n = len(run.tr)
    run.keep.clear()
    run.events.clear()
    run.buses.clear()
    detail['records'] = n
    return ok, detail
