"""C19 (@retry timetable) and C20 (@retry semaphores): the real decorator on the virtual-time loop.

C19: exhaustive per-attempt outcome sequences x parameter grid against a reference timetable in
exact virtual time, plus caller cancellation at enumerated instants.
C20: conservation monitor at the wrapped body (in-progress <= limit per scope key), FIFO reference
model for entry instants, capacity probe after quiescence, cancellation at enumerated instants,
successive event loops in one process.
"""
from __future__ import annotations

import asyncio
import hashlib
import itertools
import json
import random
import time

import bubus.helpers as H
from bubus.helpers import retry

from . import engine
from .core import Family, Result
from .vloop import Hang, VLoop, hard_close

TOL = 1e-9

import logging as _logging

_logging.getLogger('bubus').addHandler(_logging.NullHandler())
_logging.getLogger('bubus.helpers').propagate = False  # the decorator logs every lax timeout / final failure; not an observation channel here


class Listed(Exception):
    pass


class Listed2(Listed):
    pass


class Unlisted(Exception):
    pass


class ListedEmpty(Listed):
    """A 'collection of failures' error that is empty: defines __len__, so the instance is falsy."""

    def __len__(self):
        return 0


def _loop(seed=0):
    engine.patch_threads()
    loop = VLoop(seed=seed, horizon=100000.0, max_steps=400_000)
    asyncio.set_event_loop(loop)
    loop.set_exception_handler(lambda l, ctx: None)
    H._last_overload_check = time.time()  # the psutil probe blocks 0.1 s of real time; it only logs
    return loop


# =========================================================================================== C19
def ref_timetable(p, seq):
    """Reference: (call start instants, final ('ok', k) | ('raise', k, kind)) in exact arithmetic."""
    t = 0.0
    starts = []
    T = p['timeout']
    ro = p['retry_on']  # None: retry everything | 'listed': (Listed,) base class | 'sub': (Listed2,) only the subclass
    for k in range(p['retries'] + 1):
        oc = seq[k]
        starts.append(t)
        dur = oc['d']
        if T is not None and dur > T:  # timeout=None: attempts are never cut off
            end, kind = t + T, 'timeout'
        else:
            end, kind = t + dur, oc['k']
        if kind == 'ok':
            return starts, ('ok', k), end
        retryable = True
        if ro == 'listed' and kind in ('unlisted', 'timeout'):
            retryable = False
        elif ro == 'sub' and (kind in ('unlisted', 'timeout') or not oc.get('sub')):
            retryable = False  # an instance of the BASE class is not an instance of the listed subclass
        elif ro == 'oserr' and kind == 'unlisted':
            retryable = False  # retry_on=(OSError, Listed): a cut-off attempt raises TimeoutError, which IS an OSError
        if not retryable or k == p['retries']:
            return starts, ('raise', k, kind), end
        t = end + p['wait'] * (p['backoff'] ** k)
    raise AssertionError


MSGS = ['{"status": 503, "error": {"code": "busy"}}', '{}', '{0}', 'unbalanced { brace', '100% of %s quota used %d', '}{', 'failed: {name!r:>10}', '\\N{BULLET} \x00 \n second line']


def exec_retry(case) -> Result:
    res = Result(counters={})
    p, seq, cancel_at = case['p'], case['seq'], case.get('cancel_at')
    loop = _loop(case.get('i', 0))
    calls, made = [], {}
    awaitables: list = []
    retry_on = None if p['retry_on'] is None else ((Listed2,) if p['retry_on'] == 'sub' else ((OSError, Listed) if p['retry_on'] == 'oserr' else (Listed,)))

    @retry(wait=p['wait'], retries=p['retries'], timeout=p['timeout'], retry_on=retry_on, backoff_factor=p['backoff'])
    async def fn():
        k = len(calls)
        calls.append(loop.time())
        oc = seq[k] if k < len(seq) else {'k': 'ok', 'd': 0}
        if oc['d']:
            await asyncio.sleep(oc['d'])
        if oc['k'] == 'ok':
            val: object = f'v{k}'
            if oc.get('ret') == 'future':
                val = loop.create_future()  # a handle on work that finishes later (or never): it is the VALUE, returned as it is
            elif oc.get('ret') == 'task':
                val = asyncio.ensure_future(asyncio.sleep(1000.0))
            elif oc.get('ret') == 'coro':
                val = asyncio.sleep(1000.0)  # a coroutine object handed back un-awaited
            awaitables.append(val)
            made[k] = ('val', val)
            return made[k][1]
        # (message texts as real services produce them: JSON bodies, format-like fragments)
        text = MSGS[oc['msg']] if oc.get('msg') is not None else None
        exc = (Listed2 if oc.get('sub') else (ListedEmpty if oc.get('falsy') else Listed))(text or f'l{k}') if oc['k'] == 'listed' else Unlisted(text or f'u{k}')
        if oc.get('cause'):  # `raise X from Y`: only the type of X decides whether the attempt is retried
            exc.__cause__ = (Listed if oc['cause'] == 'listed' else Unlisted)('the cause')
        made[k] = ('exc', exc)
        raise exc

    out = {}

    async def main():
        t = asyncio.ensure_future(fn())
        if cancel_at is not None:
            await asyncio.sleep(cancel_at)
            out['cancelled_at'] = loop.time()
            out['was_done'] = t.done()
            t.cancel()
        try:
            v = await t
            out['res'] = ('ok', v)
        except asyncio.CancelledError:
            out['res'] = ('cancelled', None)
        except BaseException as ex:
            out['res'] = ('raise', ex)
        out['end'] = loop.time()
        await asyncio.sleep(p['wait'] * max(1.0, p['backoff']) ** (p['retries'] + 1) + (p['timeout'] or 40.0) + 50)  # would a further attempt start?

    try:
        loop.run_until_complete(main())
    except Hang as h:
        res.violations.append({'prop': 'C19', 'clause': 'hang', 'mech': None, 'w': {'case': case, 'hang': str(h)}})
        return res
    finally:
        for a_ in awaitables:
            if asyncio.iscoroutine(a_):
                a_.close()
            elif isinstance(a_, asyncio.Future) and not a_.done():
                a_.cancel()
        hard_close(loop)
    w = {'p': p, 'seq': seq, 'cancel_at': cancel_at, 'calls': calls, 'res': (out['res'][0], repr(out['res'][1])[:80]), 'end': out.get('end')}

    def bad(clause, **kw):
        res.violations.append({'prop': 'C19', 'clause': clause, 'mech': None, 'w': dict(w, **kw)})

    starts, final, end = ref_timetable(p, seq)
    res.counters['c19_cases'] = 1
    if len(calls) > p['retries'] + 1:
        bad('more-than-retries-plus-one-calls')
    if cancel_at is None:
        res.counters['c19_attempts_checked'] = len(starts)
        if len(calls) != len(starts):
            bad('number-of-attempts', want=len(starts))
        else:
            for k, (a, b) in enumerate(zip(calls, starts)):
                if abs(a - b) > TOL:
                    bad('attempt-start-instant', k=k, got=a, want=b)
                    break
        kind = out['res'][0]
        if final[0] == 'ok':
            if kind != 'ok' or out['res'][1] is not made[final[1]][1]:
                bad('first-success-not-returned', want=final)
        else:
            _f, k, fk = final
            if kind != 'raise':
                bad('exception-not-propagated', want=final)
            elif fk == 'timeout':
                if not isinstance(out['res'][1], TimeoutError):
                    bad('cut-off-attempt-not-timeout-error', want=final)
            elif out['res'][1] is not made[k][1]:
                bad('wrong-exception-propagated', want=final)
        if abs(out['end'] - end) > TOL and kind != 'cancelled':
            bad('outcome-instant', got=out['end'], want=end)
    else:
        res.counters['c19_cancellations'] = 1
        if out['was_done']:
            pass  # cancellation arrived after the outcome: nothing to check beyond the call count
        else:
            if out['res'][0] != 'cancelled':
                bad('cancellation-swallowed')
            late = [c for c in calls if c > out['cancelled_at'] + TOL]
            if late:
                bad('attempt-started-after-cancellation', late=late)
            # attempts before the cancellation follow the timetable
            for k, a in enumerate(calls):
                if k < len(starts) and abs(a - starts[k]) > TOL:
                    bad('attempt-start-instant', k=k, got=a, want=starts[k])
                    break
    res.nontrivial = True
    res.fingerprint = hashlib.blake2b(json.dumps([p, [(o['k'], p['timeout'] is not None and o['d'] > p['timeout']) for o in seq], cancel_at is not None and round(cancel_at, 6)], sort_keys=True).encode(), digest_size=8).hexdigest()
    res.sample = {'params': p, 'outcomes': seq, 'cancel_at': cancel_at, 'observed_call_instants': calls, 'reference_call_instants': starts, 'observed': w['res'], 'reference': final}
    return res


class RetryFamily(Family):
    name = 'retry_timetable'
    props = ('C19',)

    def cases(self, seed, tier, prop):
        i = 0
        waits, backs, touts = [0.0, 0.5, 2.0], [0.5, 1.0, 2.0], [1.0, 5.0]
        if tier == 'quick':
            grid = [(0.5, 2.0, 1.0), (2.0, 0.5, 5.0), (0.0, 1.0, 1.0), (0.5, 1.0, 5.0)]
        else:
            grid = list(itertools.product(waits, backs, touts))
        alphabet = ['ok', 'listed', 'unlisted', 'overrun']
        for retries in (0, 1, 2, 3):
            for (w, b, T) in grid:
                for ro in (None, 'listed', 'sub', 'oserr'):
                    p = {'retries': retries, 'wait': w, 'backoff': b, 'timeout': T, 'retry_on': ro}
                    for combo in itertools.product(alphabet, repeat=retries + 1):
                        # prefix-closed: skip sequences that differ only after the first terminal outcome
                        term = next((k for k, c in enumerate(combo) if c == 'ok' or (ro == 'listed' and c in ('unlisted', 'overrun')) or (ro == 'sub' and (c in ('unlisted', 'overrun') or (c == 'listed' and k % 2 == 0))) or (ro == 'oserr' and c == 'unlisted')), len(combo) - 1)
                        if any(c != 'ok' for c in combo[term + 1:]):
                            continue
                        seq = [{'k': 'ok' if c == 'overrun' else c, 'd': (T + 1.0) if c == 'overrun' else (0.25 if (k + i) % 2 else 0.0), 'sub': (k % 2 == 1)} for k, c in enumerate(combo)]
                        i += 1
                        yield {'family': self.name, 'i': i, 'p': p, 'seq': seq, 'exhaustive': True}
        # cancellation at every instant of sampled cases; random large cases
        n_rand = 1500 if tier == 'quick' else 20000
        for j in range(n_rand):
            rng = random.Random(f'c19/{seed}/{j}')
            retries = rng.randint(0, 7)
            p = {'retries': retries, 'wait': rng.choice([0.0, 0.1, 0.75, 3.0]), 'backoff': rng.choice([0.25, 0.5, 1.0, 1.5, 2.0, 3.0]), 'timeout': rng.choice([0.5, 1.0, 5.0, None]), 'retry_on': rng.choice([None, 'listed', 'sub', 'oserr'])}
            seq = []
            for k in range(retries + 1):
                c = rng.choice(['ok', 'listed', 'listed', 'listed', 'unlisted', 'overrun'])
                # (with timeout=None a very long attempt is simply a long attempt)
                seq.append({'k': 'ok' if c == 'overrun' else c, 'd': (p['timeout'] or 30.0) + rng.choice([0.5, 3.0]) if c == 'overrun' else rng.choice([0.0, 0.01, 0.3]), 'sub': rng.random() < 0.3,
                            'cause': rng.choice([None, None, 'listed', 'unlisted']), 'falsy': rng.random() < 0.25, 'msg': rng.randrange(len(MSGS)) if rng.random() < 0.3 else None, 'ret': rng.choice(['future', 'task', 'coro']) if rng.random() < 0.15 else None})
            i += 1
            yield {'family': self.name, 'i': i, 'p': p, 'seq': seq}
            starts, final, end = ref_timetable(p, seq)
            inst = sorted(set(starts + [end] + [s + (o['d'] if p['timeout'] is None else min(o['d'], p['timeout'])) for s, o in zip(starts, seq)]))
            pts = set()
            for a, b in zip(inst, inst[1:] + [inst[-1] + 1.0]):
                pts.update([max(0.0, a - 1e-4), a + 1e-4, (a + b) / 2])
            pts = sorted(pts)
            if len(pts) > 8 and tier == 'quick':
                pts = rng.sample(pts, 8)
            for t in pts:
                i += 1
                yield {'family': self.name, 'i': i, 'p': p, 'seq': seq, 'cancel_at': round(t, 7)}

    def execute(self, case, prop):
        return exec_retry(case)


def exec_retry_multi(case) -> Result:
    """Several calls of ONE decorated function (or of one decorated method on several instances) in flight at once: every call
    keeps its own attempt count and its own wait*backoff**k timetable, whatever the other calls are doing."""
    res = Result(counters={})
    p, calls_spec = case['p'], case['calls']
    loop = _loop(case.get('i', 0))
    log: dict[int, list] = {c: [] for c in range(len(calls_spec))}
    made: dict = {}
    retry_on = None if p['retry_on'] is None else ((Listed2,) if p['retry_on'] == 'sub' else ((OSError, Listed) if p['retry_on'] == 'oserr' else (Listed,)))

    async def body(cid):
        seq = calls_spec[cid]['seq']
        k = len(log[cid])
        log[cid].append(loop.time())
        oc = seq[k] if k < len(seq) else {'k': 'ok', 'd': 0}
        if oc['d']:
            await asyncio.sleep(oc['d'])
        if oc['k'] == 'ok':
            made[(cid, k)] = f'v{cid}.{k}'
            return made[(cid, k)]
        exc = (Listed2 if oc.get('sub') else Listed)(f'l{cid}.{k}') if oc['k'] == 'listed' else Unlisted(f'u{cid}.{k}')
        made[(cid, k)] = exc
        raise exc

    deco = retry(wait=p['wait'], retries=p['retries'], timeout=p['timeout'], retry_on=retry_on, backoff_factor=p['backoff'])
    if case.get('method'):
        class Svc:
            @deco
            async def fn(self, cid):
                return await body(cid)
        insts = [Svc() for _ in calls_spec]
        call = lambda cid: insts[cid].fn(cid)  # noqa: E731
    else:
        fn = deco(body)
        call = lambda cid: fn(cid)  # noqa: E731
    out: dict = {}

    async def one(cid):
        await asyncio.sleep(calls_spec[cid]['at'])
        try:
            out[cid] = ('ok', await call(cid))
        except BaseException as ex:  # noqa: BLE001
            out[cid] = ('raise', ex)
        out[cid] += (loop.time(),)

    async def main():
        await asyncio.gather(*[one(c) for c in range(len(calls_spec))])
        await asyncio.sleep(60)

    try:
        loop.run_until_complete(main())
    except Hang as h:
        res.violations.append({'prop': 'C19', 'clause': 'hang', 'mech': None, 'w': {'case': case, 'hang': str(h)}})
        return res
    finally:
        hard_close(loop)
    res.counters['c19_concurrent_cases'] = 1
    for cid, cs in enumerate(calls_spec):
        starts, final, end = ref_timetable(p, cs['seq'])
        starts = [cs['at'] + x for x in starts]
        end += cs['at']
        got = log[cid]
        w = {'p': p, 'call': cid, 'at': cs['at'], 'seq': cs['seq'], 'others': [c['at'] for c in calls_spec], 'attempt_starts': got, 'want': starts, 'method': bool(case.get('method'))}
        res.counters['c19_concurrent_calls'] = res.counters.get('c19_concurrent_calls', 0) + 1
        res.counters['c19_attempts_checked'] = res.counters.get('c19_attempts_checked', 0) + len(starts)
        if len(got) != len(starts):
            res.violations.append({'prop': 'C19', 'clause': 'number-of-attempts', 'mech': None, 'w': w})
            continue
        if any(abs(a - b) > TOL for a, b in zip(got, starts)):
            res.violations.append({'prop': 'C19', 'clause': 'attempt-start-instant', 'mech': None, 'w': w})
            continue
        kind, val, at = out[cid]
        if final[0] == 'ok':
            if kind != 'ok' or val is not made[(cid, final[1])]:
                res.violations.append({'prop': 'C19', 'clause': 'first-success-not-returned', 'mech': None, 'w': w})
        else:
            _f, k, fk = final
            if kind != 'raise' or (fk == 'timeout' and not isinstance(val, TimeoutError)) or (fk != 'timeout' and val is not made[(cid, k)]):
                res.violations.append({'prop': 'C19', 'clause': 'wrong-exception-propagated', 'mech': None, 'w': w})
        if abs(at - end) > TOL:
            res.violations.append({'prop': 'C19', 'clause': 'outcome-instant', 'mech': None, 'w': dict(w, got=at, want_end=end)})
    res.nontrivial = True
    res.fingerprint = f"m{len(calls_spec)}:{p['retries']}:{p['backoff']}:{[len(v) for v in log.values()]}"
    return res


class RetryConcurrentFamily(Family):
    name = 'retry_concurrent'
    props = ('C19',)

    def cases(self, seed, tier, prop):
        n = 1500 if tier == 'quick' else 20000
        for j in range(n):
            rng = random.Random(f'c19m/{seed}/{j}')
            retries = rng.randint(1, 4)
            p = {'retries': retries, 'wait': rng.choice([0.1, 0.5, 2.0]), 'backoff': rng.choice([0.5, 1.5, 2.0, 3.0, 1.0]), 'timeout': rng.choice([1.0, 5.0]), 'retry_on': rng.choice([None, None, 'listed'])}
            calls = []
            for _c in range(rng.randint(2, 4)):
                seq = []
                for k in range(retries + 1):
                    c = rng.choice(['ok', 'listed', 'listed', 'listed', 'overrun'])
                    seq.append({'k': 'ok' if c == 'overrun' else c, 'd': p['timeout'] + 0.5 if c == 'overrun' else rng.choice([0.0, 0.013, 0.3]), 'sub': False})
                calls.append({'at': round(rng.choice([0.0, 0.0, 0.07, 0.31, 1.1, 2.9]) + rng.random() * 1e-3, 6), 'seq': seq})
            yield {'family': self.name, 'i': j, 'p': p, 'calls': calls, 'method': rng.random() < 0.4}

    def execute(self, case, prop):
        return exec_retry_multi(case)


# =========================================================================================== C20
def ref_semaphore(case):
    """FIFO counting-semaphore reference: for each caller the instant its body is entered (None = never),
    whether it holds a slot, and its fate.  Times are distinct by construction (no ties)."""
    L = case['limit']
    callers = case['callers']
    ev = []
    for i, c in enumerate(callers):
        ev.append((c['at'], 0, 'arrive', i))
        if c.get('cancel_at') is not None:
            # 'cancel_steps': cancelled a few loop iterations after everything that happens at that instant (no virtual time passes)
            ev.append((c['cancel_at'] + (1e-9 if c.get('cancel_steps') else 0.0), 1, 'cancel', i))
    free = {}
    queue = {}
    state = {}
    out = {i: {'enter': None, 'slot': False, 'fate': None} for i in range(len(callers))}
    import heapq
    heapq.heapify(ev)
    sem_to = case['sem_timeout']
    while ev:
        t, _pri, kind, i = heapq.heappop(ev)
        c = callers[i]
        key = key_of(c['scope'])
        free.setdefault(key, L)
        q = queue.setdefault(key, [])
        if kind == 'arrive':
            if free[key] > 0 and not q:
                free[key] -= 1
                state[i] = 'run'
                out[i].update(enter=t, slot=True)
                heapq.heappush(ev, (t + _hold(case, c), 2, 'finish', i))
            else:
                state[i] = 'wait'
                q.append(i)
                heapq.heappush(ev, (t + sem_to, 3, 'semtimeout', i))
        elif kind == 'finish':
            if state.get(i) != 'run':
                continue
            state[i] = 'done'
            cut = case.get('attempt_timeout') is not None and c['dur'] > case['attempt_timeout'] and not case.get('retries')
            out[i]['fate'] = 'raise' if (c.get('raises') or cut) else 'ok'
            if out[i]['slot']:
                _release(key, t, free, q, state, out, callers, ev, heapq, case)
        elif kind == 'semtimeout':
            if state.get(i) != 'wait':
                continue
            q.remove(i)
            if case['lax']:
                state[i] = 'run'
                out[i].update(enter=t, slot=False)
                heapq.heappush(ev, (t + _hold(case, c), 2, 'finish', i))
            else:
                state[i] = 'done'
                out[i]['fate'] = 'semtimeout'
        elif kind == 'cancel':
            if state.get(i) == 'wait':
                q.remove(i)
                state[i] = 'done'
                out[i]['fate'] = 'cancelled'
            elif state.get(i) == 'run':
                # the body may need time to unwind (awaited clean-up in its except / finally): the slot is its until then
                state[i] = 'unwinding'
                out[i]['fate'] = 'cancelled'
                heapq.heappush(ev, (t + c.get('cleanup', 0.0), 2, 'unwound', i))
        elif kind == 'unwound':
            state[i] = 'done'
            if out[i]['slot']:
                _release(key, t, free, q, state, out, callers, ev, heapq, case)
    return out


def _hold(case, c) -> float:
    """How long a caller keeps its slot: the semaphore is acquired once and held across all retries and the waits between them."""
    r = case.get('retries', 0)
    if c.get('raises') and r:
        return (r + 1) * c['dur'] + r * case.get('wait', 0)
    at = case.get('attempt_timeout')
    if at is not None and c['dur'] > at:
        return at + c.get('cleanup', 0.0)  # the attempt is cut off, the body unwinds (awaited clean-up), then TimeoutError propagates
    return c['dur']


def _release(key, t, free, q, state, out, callers, ev, heapq, case=None):
    if q:
        j = q.pop(0)
        state[j] = 'run'
        out[j].update(enter=t, slot=True)
        heapq.heappush(ev, (t + _hold(case or {}, callers[j]), 2, 'finish', j))
    else:
        free[key] += 1


def key_of(scope: str) -> str:
    """Which semaphore an entry point must share: global name; class (A1 and A2 are instances of one class); instance."""
    if scope in ('c:A1', 'c:A2'):
        return 'c:KA'
    if scope == 'c:B1':
        return 'c:KB'
    if scope == 'c:D1':
        return 'c:KA@other-module'
    if scope == 'g2':
        return 'g'  # two functions with one semaphore_name share one global semaphore
    return scope


def exec_sem(case) -> Result:
    res = Result(counters={})
    L, lax = case['limit'], case['lax']
    callers = [dict(c) for c in case['callers']]
    H.GLOBAL_RETRY_SEMAPHORES.clear()
    # the decorator samples system load at most once per 5 wall-clock seconds, on the next call: 'probe_due' (below) puts the
    # process into the state "last sample was long ago" so that the next acquisition goes through that code path
    uid = f"s{case.get('i', 0)}"
    obs = {i: {'enter': None, 'exit': None, 'fate': None, 'inprog_at_enter': None} for i in range(len(callers))}
    inprog: dict = {}
    peak: dict = {}
    viol = []
    probe_state = {'started': [], 'hold': None}
    claimed: set = set()
    spawned: dict = {}
    runner: list = [None]

    def deco(scope):
        return retry(wait=case.get('wait', 0), retries=case.get('retries', 0), timeout=case.get('attempt_timeout') or 1000.0, semaphore_limit=L, semaphore_name=uid, semaphore_lax=lax, semaphore_scope=scope, semaphore_timeout=case['sem_timeout'])

    async def body(i):
        c = callers[i]
        if c.get('probe'):
            probe_state['started'].append(i)
            await probe_state['hold'].wait()
            return i
        key = key_of(c['scope'])
        loop = asyncio.get_running_loop()
        inprog[key] = inprog.get(key, 0) + 1
        peak[key] = max(peak.get(key, 0), inprog[key])
        if obs[i]['enter'] is None:  # first attempt: the slot is held from here across all retries
            obs[i]['enter'] = loop.time()
            obs[i]['inprog_at_enter'] = inprog[key]
            # callers whose task is CREATED here, inside an execution that holds a slot (a background job started by the decorated
            # function): they call at their own arrival instant like anybody else - where their task was born must not matter
            for j_, cj in enumerate(callers):
                if cj.get('via') == i and j_ not in claimed and runner[0] is not None:
                    claimed.add(j_)
                    spawned[j_] = asyncio.ensure_future(runner[0](j_, True))
        obs[i]['attempts'] = obs[i].get('attempts', 0) + 1
        try:
            await asyncio.sleep(c['dur'])
            if c.get('raises'):
                raise Unlisted(f'c{i}')
            return i
        except asyncio.CancelledError:
            if c.get('cleanup'):
                await asyncio.sleep(c['cleanup'])  # awaited clean-up: this execution is still in progress
            raise
        finally:
            inprog[key] -= 1
            obs[i]['exit'] = loop.time()

    class _KBase:
        # instances are value objects: all instances of one class compare equal and hash alike (a frozen dataclass with equal
        # fields) - 'self' scope still means THIS instance
        def __eq__(self, other):
            return type(other) is type(self)

        def __hash__(self):
            return hash(type(self).__name__)

        # ONE decorated function object reached through instances of two classes (inherited method): 'class' scope means the
        # runtime class of the instance, so KA and KB must not share slots
        @deco('class')
        async def cm(self, i):
            return await body(i)

        @deco('self')
        async def sm(self, i):
            return await body(i)

    class KA(_KBase):
        pass

    class KB(_KBase):
        pass

    @deco('global')
    async def gf(i):
        return await body(i)

    @deco('global')
    async def gf2(i):  # a different function that names the same semaphore: shares its slots
        return await body(i)

    # a second, unrelated class that happens to carry the same __name__ (think `class Client` in two modules): its 'class'
    # scope is its own
    class _Other:
        @deco('class')
        async def cm(self, i):
            return await body(i)

    _Other.__name__ = 'KA'
    _Other.__qualname__ = 'KA'
    _Other.__module__ = 'some.other.module'
    objs = {'A1': KA(), 'A2': KA(), 'B1': KB(), 'D1': _Other()}

    def call(i):
        sc = callers[i]['scope']
        if sc == 'g':
            return gf(i)
        if sc == 'g2':
            return gf2(i)
        kind, obj = sc.split(':')
        if obj not in objs:
            objs[obj] = KA()  # many short-lived instances: one 'self'-scoped semaphore key each
        return getattr(objs[obj], 'cm' if kind == 'c' else 'sm')(i)

    async def run_phase(idx):
        loop = asyncio.get_running_loop()
        base = loop.time()

        async def starter(i, born_inside=False):
            c = callers[i]
            if c['at'] > 0:
                await asyncio.sleep(c['at'] - (loop.time() - base))
            if c.get('via') is not None and not born_inside:
                if i in claimed:
                    await spawned[i]  # its task was created inside the slot holder and makes the call
                    return
                claimed.add(i)  # the would-be parent has not entered by now: an ordinary caller
            t = asyncio.ensure_future(call(i))
            if c.get('cancel_at') is not None:
                await asyncio.sleep(c['cancel_at'] - (loop.time() - base))
                for _ in range(c.get('cancel_steps', 0)):
                    await asyncio.sleep(0)  # same virtual instant, a few loop iterations later: wherever the call is suspended by then
                if not t.done():
                    t.cancel()
            try:
                await t
                obs[i]['fate'] = 'ok'
            except asyncio.CancelledError:
                obs[i]['fate'] = 'cancelled'
            except TimeoutError:
                obs[i]['fate'] = 'semtimeout' if obs[i]['enter'] is None else 'raise'
            except Unlisted:
                obs[i]['fate'] = 'raise'
            except BaseException as ex:
                obs[i]['fate'] = f'unexpected:{type(ex).__name__}:{ex}'[:160]
        runner[0] = starter
        await asyncio.gather(*[starter(i) for i in idx])
        runner[0] = None
        # black-box capacity probe per scope used: L fresh callers enter at once, the (L+1)-st waits
        for scope in sorted({callers[i]['scope'] for i in idx}):
            probe_state['started'] = []
            probe_state['hold'] = asyncio.Event()
            n0 = len(callers)
            pt = []
            for j in range(L + 1):
                callers.append({'scope': scope, 'probe': True})
                pt.append(asyncio.ensure_future(call(n0 + j)))
            await asyncio.sleep(0.001)
            entered = len(probe_state['started'])
            probe_state['hold'].set()
            for t in pt:
                t.cancel()
            await asyncio.gather(*pt, return_exceptions=True)
            if entered != L:
                viol.append(('capacity-after-quiescence', {'scope': scope, 'entered_at_once': entered, 'limit': L}))

    phases = case.get('phases') or [list(range(len(callers)))]
    try:
        for pi, idx in enumerate(phases):
            loop = _loop(case.get('i', 0) + pi)
            if case.get('probe_due'):
                H._last_overload_check = 0.0  # (after _loop(), which marks the probe as just done)
            try:
                loop.run_until_complete(run_phase(idx))
            finally:
                hard_close(loop)
    except Hang as h:
        res.violations.append({'prop': 'C20', 'clause': 'hang', 'mech': None, 'w': {'case': case, 'hang': str(h)}})
        return res
    callers = case['callers']
    w = {'limit': L, 'lax': lax, 'sem_timeout': case['sem_timeout'], 'callers': callers[:12], 'phases': case.get('phases')}

    def bad(clause, **kw):
        res.violations.append({'prop': 'C20', 'clause': clause, 'mech': None, 'w': dict(w, **kw)})

    for clause, d in viol:
        bad(clause, **d)
    res.counters['c20_cases'] = 1
    res.counters['c20_callers_born_inside_a_slot_holder'] = len(spawned)
    res.counters['c20_callers'] = len(callers)
    res.counters['c20_capacity_probes'] = sum(len({callers[i]['scope'] for i in idx}) for idx in phases)
    if len(phases) > 1:
        res.counters['c20_multi_loop_cases'] = 1
    # per phase reference (each phase starts with fully released semaphores)
    for idx in phases:
        ref = ref_semaphore(dict(case, callers=[callers[i] for i in idx]))
        for pos, i in enumerate(idx):
            o, r = obs[i], ref[pos]
            res.counters['c20_callers_checked'] = res.counters.get('c20_callers_checked', 0) + 1
            if isinstance(o['fate'], str) and o['fate'].startswith('unexpected'):
                bad('unexpected-exception', caller=i, fate=o['fate'])
                continue
            if o['enter'] is not None and not callers[i].get('cancel_steps'):
                # (a victim cancelled within its own acquisition instant ties with its successor, which enters at that very instant:
                # the in-body counter below is the monitor for those)
                # slot holders in progress at this entry: callers that entered lax after an acquisition timeout hold no slot
                t = o['enter']
                holders = 1 if r['slot'] else 0
                for pos2, j in enumerate(idx):
                    o2 = obs[j]
                    if j != i and key_of(callers[j]['scope']) == key_of(callers[i]['scope']) and o2['enter'] is not None and o2['enter'] <= t and (o2['exit'] is None or o2['exit'] > t):
                        if not (o2['enter'] == t and j > i) and ref[pos2]['slot']:
                            holders += 1
                if holders > L:
                    bad('limit-exceeded', caller=i, slot_holders_in_progress=holders, in_progress=o['inprog_at_enter'])
                if not any(not x['slot'] and x['enter'] is not None for x in ref.values()) and o['inprog_at_enter'] > L:
                    bad('limit-exceeded-without-any-lax-timeout', caller=i, in_progress=o['inprog_at_enter'])
            if r['fate'] == 'semtimeout':
                res.counters['c20_sem_timeouts'] = res.counters.get('c20_sem_timeouts', 0) + 1
                if o['enter'] is not None or o['fate'] != 'semtimeout':
                    bad('non-lax-timeout-must-raise-and-not-run', caller=i, got=o)
                continue
            if r['enter'] is None:
                if o['enter'] is not None:
                    bad('body-ran-for-caller-cancelled-while-waiting', caller=i, got=o)
                continue
            if callers[i].get('cancel_steps'):
                # cancelled within the instant of its own acquisition: the body may or may not have been reached yet
                res.counters['c20_cancellations_at_acquisition'] = res.counters.get('c20_cancellations_at_acquisition', 0) + 1
                if o['fate'] not in ('cancelled',):
                    bad('fate-differs-from-reference', caller=i, got=o['fate'], want='cancelled')
                continue
            if o['enter'] is None:
                bad('caller-never-entered', caller=i, want=r, got=o)
            elif abs(o['enter'] - r['enter']) > 1e-6:
                bad('entry-instant-differs-from-fifo-reference', caller=i, got=o['enter'], want=r['enter'], slot=r['slot'])
            if o['fate'] != r['fate']:
                bad('fate-differs-from-reference', caller=i, got=o['fate'], want=r['fate'])
            if r['enter'] is not None and not r['slot']:
                res.counters['c20_lax_entries'] = res.counters.get('c20_lax_entries', 0) + 1
            if callers[i].get('cancel_at') is not None and r['fate'] == 'cancelled':
                res.counters['c20_cancellations'] = res.counters.get('c20_cancellations', 0) + 1
    # white-box: every registry semaphore is back at full value
    for k, sem in H.GLOBAL_RETRY_SEMAPHORES.items():
        v = getattr(sem, '_value', None)
        if v is not None and v != L:
            bad('slots-leaked-or-over-released', key=k, value=v)
    res.nontrivial = True
    res.fingerprint = hashlib.blake2b(json.dumps([L, lax, case['sem_timeout'], case.get('retries', 0), case.get('wait', 0), [(c['scope'], round(c['at'], 4), round(c['dur'], 4), c.get('raises'), c.get('cancel_at') is not None) for c in callers], case.get('phases')], sort_keys=True).encode(), digest_size=8).hexdigest()
    res.counters['c20_cases_with_retries'] = 1 if case.get('retries') else 0
    res.sample = {'limit': L, 'lax': lax, 'sem_timeout': case['sem_timeout'], 'retries': case.get('retries', 0), 'wait': case.get('wait', 0), 'callers': callers[:8], 'observed': {i: obs[i] for i in list(obs)[:8]}, 'peak_in_progress': peak}
    return res


class SemFamily(Family):
    name = 'retry_semaphore'
    props = ('C20',)

    def cases(self, seed, tier, prop):
        n = 1500 if tier == 'quick' else 16000
        i = 0
        for j in range(n):
            rng = random.Random(f'c20/{seed}/{j}')
            L = rng.choice([1, 1, 2, 3])
            lax = rng.random() < 0.5
            sem_to = rng.choice([0.05, 0.5, 2.0, 50.0])
            ncall = rng.randint(2, 9)
            scopes = rng.choice([['g'], ['g', 'g2'], ['c:A1', 'c:A2'], ['c:A1', 'c:B1'], ['s:A1', 's:A2'], ['g', 'c:A1', 's:A1'], ['g', 'g2', 's:A1'], ['c:A1', 'c:D1'], ['c:A1', 'c:A2', 'c:D1']])
            callers = []
            for k in range(ncall):
                sc = rng.choice(scopes)
                # class scope: A1 and A2 are instances of the same class and share one semaphore
                key = sc
                c = {'scope': sc, 'at': round(rng.choice([0, 0, 0.1, 0.3, 1.0]) + k * 1e-3, 6), 'dur': round(rng.choice([0.0, 0.2, 0.7, 3.0]) + k * 1.7e-4, 6)}
                if rng.random() < 0.15:
                    c['raises'] = True
                if rng.random() < 0.25:
                    c['cleanup'] = round(rng.choice([0.05, 0.3]) + k * 1.3e-4, 6)  # time the body needs to unwind when cancelled
                callers.append(c)
            if j % 7 == 3:
                # a process with many decorated instances: 70 'self'-scoped keys are created while another scope is partly held
                extra = []
                t0 = 0.05
                for k in range(70):
                    extra.append({'scope': f's:X{k}', 'at': round(t0 + k * 2e-3 + 7e-5, 6), 'dur': round(0.01 + k * 1.3e-5, 6)})
                late_scope = rng.choice([c['scope'] for c in callers])
                for k in range(rng.randint(1, 3)):
                    extra.append({'scope': late_scope, 'at': round(0.25 + k * 3.1e-3, 6), 'dur': round(0.5 + k * 1.9e-4, 6)})
                callers = callers + extra
                ncall = len(callers)
            if j % 4 == 1:
                # some callers are background jobs started by an earlier caller of the same scope while that one holds its slot
                for q, cq in enumerate(callers):
                    earlier = [q0 for q0, c0 in enumerate(callers) if c0['scope'] == cq['scope'] and c0['at'] + 1e-3 < cq['at'] and c0.get('via') is None]
                    if earlier and rng.random() < 0.4:
                        cq['via'] = rng.choice(earlier)
            base = {'family': self.name, 'limit': L, 'lax': lax, 'sem_timeout': sem_to, 'callers': callers}
            if j % 3 == 2 and rng.random() < 0.5:
                base['attempt_timeout'] = 0.4513  # (an odd value: no ties with arrival + acquisition-timeout sums) bodies of 0.7 s and 3 s are cut off (and unwind), 0.2 s ones are not
            if j % 3 == 1:
                base['retries'] = rng.choice([1, 2])
                base['wait'] = rng.choice([0.0, 0.033, 0.4])
                for c in callers:
                    c.pop('cleanup', None)  # (a caller may be cancelled between two attempts, where there is no body to unwind)
            i += 1
            yield dict(base, i=i)
            # cancellation of one caller at enumerated instants
            ref = ref_semaphore(base)
            inst = sorted({c['at'] for c in callers} | {r['enter'] for r in ref.values() if r['enter'] is not None} | {r['enter'] + callers[q]['dur'] for q, r in ref.items() if r['enter'] is not None})
            pts = set()
            for a, b in zip(inst, inst[1:] + [inst[-1] + 0.5]):
                pts.update([round(a + 3.3e-5, 7), round((a + b) / 2 + 1.1e-5, 7)])
            pts = sorted(pts)
            k_pts = 4 if tier == 'quick' else 12
            if 'attempt_timeout' in base:
                pts = []  # (a caller cancelled while a cut-off attempt of its own is unwinding has no simple reference)
            for t in (rng.sample(pts, k_pts) if len(pts) > k_pts else pts):
                victim = rng.randrange(ncall)
                if t <= callers[victim]['at']:
                    continue
                cs = [dict(c) for c in callers]
                cs[victim]['cancel_at'] = t
                i += 1
                yield dict(base, i=i, callers=cs)
            # cancellation a few loop iterations after the victim's own acquisition instant (between 'has the slot' and 'body runs')
            if j % 2 == 0 and 'attempt_timeout' not in base:
                got = [q for q, r in ref.items() if r['enter'] is not None and r['slot'] and callers[q]['dur'] >= 0.1]
                if got:
                    victim = rng.choice(got)
                    cs = [dict(c) for c in callers]
                    cs[victim]['cancel_at'] = ref[victim]['enter']
                    cs[victim]['cancel_steps'] = rng.choice([1, 2, 3, 4, 6, 9])
                    cs[victim].pop('cleanup', None)  # (whether the body was reached at all is open here, so nothing to unwind)
                    i += 1
                    yield dict(base, i=i, callers=cs, probe_due=rng.random() < 0.5)
            # successive event loops in one process (same semaphore names)
            if j % 5 == 0:
                cs = [dict(c) for c in callers] + [dict(c, via=c['via'] + ncall) if c.get('via') is not None else dict(c) for c in callers]
                i += 1
                yield dict(base, i=i, callers=cs, phases=[list(range(ncall)), list(range(ncall, 2 * ncall))])

    def execute(self, case, prop):
        r = exec_sem(case)
        engine.maybe_gc()
        return r
