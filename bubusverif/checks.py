"""Registry: families of cases and the per-property checks built from them."""
from __future__ import annotations

from . import gen
from .core import Check, ScenarioFamily

FAMILIES: dict = {}


def fam(f):
    FAMILIES[f.name] = f
    return f


def _rand(c):
    return lambda rng, i: gen.random_scenario(rng, c)


BUS_PROPS = ('C01', 'C02', 'C03', 'C04', 'C05', 'C06', 'C08', 'C09', 'C11', 'C13', 'C14', 'C15')

# serial buses, no forwarding: the "clean" class for most ordering/completion oracles
fam(ScenarioFamily('serial', BUS_PROPS, _rand(gen.cfg(p_idle=0.08, modes=['fire', 'await', 'await', 'later', 'await_result'])), 800, 8000))
# one serial bus: no third party can hold an awaited child, so C04 is strict here
fam(ScenarioFamily('single', BUS_PROPS, _rand(gen.cfg(nb=(1, 1), p_idle=0.08, p_redisp=0.04, p_actor_redisp=0.08, p_explicit_parent=0.05)), 600, 6000))
# deeper trees, more buses, long-running fire-and-forget descendants
fam(ScenarioFamily('deep', BUS_PROPS, _rand(gen.cfg(nb=(2, 4), levels=6, prog_len=(1, 3), handlers_per=(1, 1, 2), p_wild=0.15, p_idle=0.05)), 400, 4000))
# parallel handlers
fam(ScenarioFamily('parallel', BUS_PROPS, _rand(gen.cfg(p_par=0.6, p_idle=0.05, modes=['fire', 'await', 'await', 'later', 'await_result'])), 400, 4000))
# forwarding between buses (one edge per (src,dst))
fam(ScenarioFamily('forward', BUS_PROPS + ('C07',), _rand(gen.cfg(nb=(2, 4), p_fwd=1.0, p_idle=0.05, p_redisp=0.03, p_actor_redisp=0.1, p_redisp_other=0.6)), 600, 6000))
# forwarding combined with small history limits (loop prevention must not depend on what the history still holds)
fam(ScenarioFamily('forward_history', BUS_PROPS + ('C07',), _rand(gen.cfg(nb=(2, 4), p_fwd=1.0, hist=[1, 2, 3, 5, 10], actor_ops=(3, 9), p_idle=0.12, p_age=0.2)), 400, 4000))
# small history limits
fam(ScenarioFamily('history', BUS_PROPS, _rand(gen.cfg(hist=[1, 2, 3, 5, 10], nb=(1, 3), actor_ops=(3, 9), p_idle=0.15, p_age=0.25, p_actor_redisp=0.08, p_redisp_other=0.3, p_redisp=0.02)), 600, 6000))


CHECKS: dict = {}


def chk(c):
    CHECKS[c.prop] = c
    return c

A_VT = 'virtual-time loop (bubusverif/vloop.py) preserves asyncio semantics: FIFO ready queue, timers in deadline order; only loop.time() is virtual'
A_OBS = 'observation by subclassing EventBus (public dispatch / process_event / wait_until_idle / stop) and by harness-side handler bodies does not change library behaviour'
A_GEN = 'generated programs terminate by construction (level-k handlers dispatch only level>k events; wildcard handlers never dispatch)'

chk(Check('C01', 'exploration', ['serial', 'single', 'deep', 'parallel', 'forward', 'history'],
          {'c01_deliveries': {'quick': 8000, 'thorough': 150000}},
          'seeded random bus programs (1-4 buses, serial/parallel, forwarding, small history limits, sync/async/method handlers, nested fire/await/await-later children, raising handlers, re-dispatch of the same object); a case is non-trivial when the exactly-once oracle evaluated >=1 (event,bus,handler) delivery; distinct = distinct interleaving fingerprints (sequence of record kinds/bus/handler/driver with ids and times erased)',
          'offline exactly-once checker over recorded delivery histories (unique event tags, harness-side handler registry as ground truth)', [A_VT, A_OBS, A_GEN]))
chk(Check('C02', 'exploration', ['serial', 'single', 'deep', 'parallel', 'forward', 'history'],
          {'c02_pairs': {'quick': 20000, 'thorough': 400000}, 'c02_serial_checks': {'quick': 1000, 'thorough': 20000}},
          'same programs; non-trivial when >=1 ordered pair of events enqueued on one bus was compared (first process_event begin per (bus,event) vs order of accepted dispatch() calls), exception for awaited events and their harness-lineage descendants; plus serial-bus clause: no process_event begin on a serial bus while a handler of another event on it runs un-suspended',
          'offline per-queue ordering checker over recorded enqueue/dequeue/process histories', [A_VT, A_OBS, A_GEN]))
chk(Check('C03', 'exploration', ['serial', 'single', 'deep', 'parallel', 'forward', 'history'],
          {'c03_awaits': {'quick': 6000, 'thorough': 120000}},
          'same programs; non-trivial when >=1 await of an event from actor (non-handler) code was judged: returns the same object, raises nothing, whole harness-lineage tree terminal at the instant of return, released within 0.3 virtual s of the last processing step of its tree; awaiters still blocked when the scenario has gone silent for W virtual seconds are hangs',
          'offline completion checker at await-return snapshots + bounded-progress (virtual-time silence) hang detector', [A_VT, A_OBS, A_GEN, 'silence window W = longest programmed delay/timeout + 0.5 s: after W virtual seconds without any record nothing but 0.1 s polling timers remains scheduled']))
chk(Check('C04', 'exploration', ['serial', 'single', 'deep', 'parallel', 'forward', 'history'],
          {'c04_awaits': {'quick': 1500, 'thorough': 30000}, 'c04_complete': {'quick': 1000, 'thorough': 20000}},
          'same programs with a suspension of every critical length (none, sleep(0), 1 ms, 50 ms, 100 ms, 150 ms) between dispatch and await; non-trivial when >=1 in-handler await was judged at its return (child complete incl. descendants unless the awaiting handler was cancelled)',
          'offline completion checker at in-handler await-return snapshots', [A_VT, A_OBS, A_GEN]))
chk(Check('C05', 'exploration', ['serial', 'single', 'deep', 'parallel', 'forward', 'history'],
          {'c05_awaits_with_backlog': {'quick': 600, 'thorough': 12000}},
          'same programs; non-trivial when >=1 in-handler await began while some other event was queued on some bus; every handler entry between await-begin and await-end for an event that is neither the awaited one nor a lineage descendant is a violation, classified by who drove it',
          'offline interval checker: handler entries inside await windows, classified by driver chain (task identity of process_event callers)', [A_VT, A_OBS, A_GEN]))
chk(Check('C06', 'exploration', ['serial', 'single', 'deep', 'parallel', 'forward', 'history'],
          {'c06_overlap_checks': {'quick': 4000, 'thorough': 80000}},
          'same programs with every place of first use of a bus (eager, first dispatch from an actor, first dispatch inside a handler, constructed inside a handler); non-trivial when >=1 handler entry happened while another invocation was running (the overlap rule was evaluated)',
          'online sweep over handler enter/exit intervals with await depth per invocation', [A_VT, A_OBS, A_GEN]))
chk(Check('C08', 'exploration', ['serial', 'single', 'deep', 'parallel', 'forward', 'history'],
          {'c08_reobservations': {'quick': 10000, 'thorough': 200000}},
          'same programs; snapshots (status, completion signal, every result id/status/value/error identity) at every await return, every process_event end and at quiescence; non-trivial when an event already observed complete was observed again',
          'offline stability checker over snapshot histories', [A_VT, A_OBS, A_GEN]))
chk(Check('C09', 'exploration', ['serial', 'single', 'deep', 'parallel', 'forward', 'history'],
          {'c09_events': {'quick': 6000, 'thorough': 120000}, 'c09_event_bus_reads': {'quick': 500, 'thorough': 10000}},
          'same programs; harness keeps its own lineage (which invocation dispatched what) and handler registry; after quiescence event_parent_id and every result.event_children list are compared with it; event.event_bus is read inside handlers (also after forwards and nested awaits)',
          'offline lineage comparison against harness-side ground truth', [A_VT, A_OBS, A_GEN, 'dispatches from tasks spawned by a handler are excluded (they inherit the handler context by asyncio rule)']))
chk(Check('C11', 'exploration', ['serial', 'single', 'deep', 'parallel', 'forward', 'history'],
          {'c11_raises': {'quick': 700, 'thorough': 14000}, 'c11_returned_exceptions': {'quick': 150, 'thorough': 3000}},
          'same programs with raising handlers at every position (sync/async, before/after suspension, parent/child/awaited child/forwarded bus), exception objects returned; non-trivial when >=1 raise or returned exception was judged (captured as that handler error result with the same object, nothing escapes process_event/await, event completes)',
          'offline error-capture checker (identity of exception objects) over handler exit records and final results', [A_VT, A_OBS, A_GEN]))
chk(Check('C13', 'exploration', ['history', 'capacity'],
          {'c13_bound_checks': {'quick': 20000, 'thorough': 400000}, 'c13_evictions': {'quick': 1500, 'thorough': 30000}, 'c03_awaits': {'quick': 1500, 'thorough': 30000}},
          'programs on buses with max_history_size in {1,2,3,5,10}; len(event_history) observed after every dispatch, every process_event and at every handler entry/exit; every cleanup call judged with its pre-state (class priority completed<started<pending, oldest first, no over-eviction); non-trivial when >=1 eviction was judged',
          'invariant at hooks (pre/post snapshot around cleanup_event_history, length at dispatch/process_event return)', [A_VT, A_OBS, A_GEN]))
chk(Check('C15', 'exploration', ['serial', 'single', 'deep', 'parallel', 'forward', 'history'],
          {'c15_accepted_before_call': {'quick': 8000, 'thorough': 150000}},
          'same programs with wait_until_idle() calls from actors racing dispatches, plus one probe per bus at global quiescence; at return: queue empty, nothing pending/started, and every (event,bus) accepted before the call has finished process_event; probe must return within 0.25 virtual s',
          'postcondition at wait_until_idle return against harness ground truth + bounded-progress hang detector', [A_VT, A_OBS, A_GEN]))


# --------------------------------------------------------------------------------------------- directed / enumerated families
import random as _random

from .enumfam import EnumFamily


class GraphFamily(ScenarioFamily):
    """All forwarding digraphs (self-loops included) on <=3 buses x every entry bus, with and without
    concurrent nested-await traffic; random digraphs on 4-5 buses."""

    def __init__(self):
        super().__init__('graphs', ('C07', 'C01', 'C09'), None, 0, 0)

    def cases(self, seed, tier, prop):
        i = 0
        plan = []
        for n in (1, 2):
            for mask in range(1 << (n * n)):
                for entry in range(n):
                    for traffic in (False, True):
                        plan.append((n, mask, entry, traffic))
        masks3 = list(range(512))
        if tier == 'quick':
            r = _random.Random(f'graphs3/{seed}')
            masks3 = sorted(r.sample(masks3, 90))
        for mask in masks3:
            for entry in range(3):
                for traffic in ((False, True) if tier == 'thorough' else (bool((mask + entry) % 2),)):
                    plan.append((3, mask, entry, traffic))
        r = _random.Random(f'graphs45/{seed}')
        for _ in range(60 if tier == 'quick' else 1500):
            n = r.choice([4, 5])
            mask = 0
            for _e in range(r.randint(2, 2 * n)):
                mask |= 1 << r.randrange(n * n)
            plan.append((n, mask, r.randrange(n), r.random() < 0.5))
        for (n, mask, entry, traffic) in plan:
            rng = _random.Random(f'graphs/{seed}/{i}')
            i += 1
            yield {'family': self.name, 'i': i, 'graph': [n, mask, entry, traffic], 'scenario': gen.graph_scenario(n, mask, entry, rng, traffic)}


fam(GraphFamily())
fam(ScenarioFamily('recursion', ('C01', 'C03', 'C15', 'C11'), gen.recursion_scenario, 240, 1200))
fam(ScenarioFamily('capacity', ('C14', 'C13'), gen.capacity_scenario, 300, 2000))
fam(ScenarioFamily('spawn', ('C06', 'C04', 'C05', 'C02'), gen.spawn_scenario, 200, 1500))
fam(ScenarioFamily('dupfwd', BUS_PROPS + ('C07',), gen.dupfwd_scenario, 300, 3000))
fam(ScenarioFamily('later', BUS_PROPS, gen.later_scenario, 400, 4000))
fam(ScenarioFamily('shapes', BUS_PROPS, gen.shapes_scenario, 500, 5000))
fam(EnumFamily('error_enum', ('C11', 'C01'), gen.error_base, gen.error_derive, 12, 200, 40, 120))
fam(EnumFamily('idle_enum', ('C15',), gen.idle_base, gen.idle_derive, 16, 250, 40, 120))
fam(ScenarioFamily('history_deep', BUS_PROPS, gen.history_deep_scenario, 300, 4000))
fam(EnumFamily('stop_enum', ('C16', 'C05', 'C06'), gen.stop_base, gen.stop_derive, 20, 200, 40, 150))
fam(EnumFamily('cancel_enum', ('C16',), gen.stop_base, gen.cancel_derive, 6, 80, 30, 100, workdir=True))  # (some cancelled buses keep a real WAL file)
def _second_loop_scenario(rng, i):
    sc = gen.random_scenario(rng, gen.cfg(nb=(1, 3), p_fwd=0.2, p_par=0.2, actor_await=0.6, p_raise=0.1))
    sc['second_loop'] = True
    return sc


fam(ScenarioFamily('second_loop', ('C08',), _second_loop_scenario, 200, 2000))
fam(ScenarioFamily('gather', ('C04',), gen.gather_scenario, 300, 3000))
fam(ScenarioFamily('late_fwd', ('C07',), gen.late_fwd_scenario, 200, 2000))
fam(ScenarioFamily('late_on', ('C01', 'C09', 'C11', 'C03'), gen.late_on_scenario, 300, 3000))
fam(EnumFamily('fwdback_timeout_enum', ('C10', 'C08'), gen.fwdback_base, gen.fwdback_derive, 6, 100, 40, 150))
fam(ScenarioFamily('odd_timeout', ('C01', 'C03', 'C09', 'C11'), gen.odd_timeout_scenario, 300, 3000))
fam(ScenarioFamily('rehydrated', ('C08',), gen.rehydrated_scenario, 250, 2500))
fam(EnumFamily('retry_handler_timeout_enum', ('C10',), gen.retry_handler_base, gen.retry_handler_derive, 8, 100, 40, 150))
fam(ScenarioFamily('strict_warnings', ('C11', 'C01'), gen.strict_warnings_scenario, 250, 2500))
fam(EnumFamily('cyclic_timeout_enum', ('C10',), gen.cyclic_timeout_base, gen.cyclic_timeout_derive, 4, 30, 40, 150))
fam(ScenarioFamily('manual_step', ('C06',), gen.manual_step_scenario, 150, 1500))
fam(EnumFamily('double_cancel_enum', ('C06', 'C10', 'C02'), gen.double_cancel_base, gen.double_cancel_derive, 8, 120, 40, 150))
fam(EnumFamily('waitfor_enum', ('C15',), gen.waitfor_base, gen.waitfor_derive, 16, 200, 40, 120))
fam(EnumFamily('timeout_enum', ('C10', 'C08', 'C02', 'C06'), gen.timeout_base, gen.timeout_derive, 24, 250, 40, 150))

CHECKS['C01'].families.append('recursion')
CHECKS['C01'].families.append('graphs')
CHECKS['C03'].families.append('recursion')
CHECKS['C15'].families.append('recursion')
CHECKS['C06'].families.append('spawn')
CHECKS['C11'].families.append('error_enum')
CHECKS['C01'].families.append('error_enum')
for _p in ('C01', 'C02', 'C03', 'C04', 'C05', 'C06', 'C08', 'C09', 'C11', 'C15'):
    CHECKS[_p].families.append('dupfwd')
    CHECKS[_p].families.append('later')
    CHECKS[_p].families.append('shapes')
CHECKS['C08'].families.append('timeout_enum')
CHECKS['C15'].families.append('idle_enum')
for _p in ('C01', 'C09', 'C11', 'C03'):
    CHECKS[_p].families.append('late_on')
CHECKS['C04'].families.append('gather')
# (C03 / C04 are not run on the timeout programs: what a timeout may leave incomplete is decided by C10's clauses - touched events
#  complete, no pending results, awaiters released - with the exact F5 signature; see DESIGN.md 8.6)
CHECKS['C08'].families.append('second_loop')
CHECKS['C15'].families += ['timeout_enum', 'waitfor_enum']  # 'whatever happened to earlier events': handler timeouts, user-bounded awaits
for _p in ('C01', 'C03', 'C04', 'C13', 'C15'):
    CHECKS[_p].families.append('history_deep')
CHECKS['C05'].families.append('stop_enum')
CHECKS['C06'].families.append('stop_enum')
CHECKS['C13'].families.append('forward_history')
CHECKS['C02'].families.append('timeout_enum')
CHECKS['C09'].families.append('timeout_enum')  # lineage of events dispatched while a cancellation unwinds
CHECKS['C06'].families.append('timeout_enum')
CHECKS['C08'].families.append('recursion')

chk(Check('C07', 'exploration', ['graphs', 'forward', 'dupfwd', 'forward_history'],
          {'c07_forwarded_events': {'quick': 800, 'thorough': 15000}},
          'every forwarding digraph (self-loops included) on 1-2 buses and (thorough: all 512; quick: 90 sampled) on 3 buses x every entry bus x with/without concurrent nested-await traffic, random digraphs on 4-5 buses, random forwarding programs; per event: set of buses that processed it == reachability set, each once, event_path == order of first acceptance, same object on every bus, results of every bus accumulate, quiescence reached (termination); non-trivial when >=1 event with a reachability set of >=2 buses was judged',
          'offline reachability/count/path checker over recorded processing histories; non-termination = scenario never goes silent / iteration budget', [A_VT, A_OBS, A_GEN]))
chk(Check('C10', 'fault_enumeration', ['timeout_enum'],
          {'c10_timeouts_fired': {'quick': 250, 'thorough': 8000}, 'c10_touched_events': {'quick': 300, 'thorough': 9000}},
          'base programs (parent->child->grandchild shapes, fire/await mixes, several handlers per event, a later event) are run untimed to collect every distinct virtual instant; the event timeout (on the root, or on an awaited child) is then placed at every instant -eps/+eps and at every midpoint; non-trivial when >=1 handler actually ran into its deadline',
          'offline checker over handler op/exit records in virtual time (cancelled at deadline, no op after it, TimeoutError result, siblings run, touched events complete, bus idle) with complete enumeration of timeout instants per base program', [A_VT, A_OBS, A_GEN, 'enumeration is complete per base program, base programs are sampled']))
chk(Check('C14', 'exploration', ['capacity', 'history', 'serial'],
          {'c14_rejections': {'quick': 1500, 'thorough': 25000}, 'c14_accepted': {'quick': 10000, 'thorough': 150000}},
          'programs that fill the queue (50) and the backlog limit (100) from actors and from inside handlers (30-130 dispatches in one go), with history limits None/5/20/50/200, dispatch after stop(); every dispatch() call recorded as call + (return | raise); rejected: not in history, in no children list, no path entry, would-be parent completes; accepted: processed; non-trivial when >=1 rejection was judged',
          'offline accept/reject atomicity checker over dispatch call/return/raise records and final state', [A_VT, A_OBS, A_GEN]))
chk(Check('C16', 'fault_enumeration', ['stop_enum', 'cancel_enum'],
          {'c16_stops': {'quick': 250, 'thorough': 8000}, 'c16_runloop_cancels': {'quick': 80, 'thorough': 3000}},
          'base programs (backlog, sleeping / inline-awaiting / sync-busy handlers, handlers dispatching late, a second bus awaiting afterwards) are run once to collect every distinct virtual instant; stop(timeout in {None,0,0.05,0.3}) or cancellation of the bus run-loop task is then placed at every instant -eps/+eps and midpoints; stop must return within timeout+0.1 s(+blocking user code), no handler of that bus may start after it returned, a cancelled run loop must finish within 1 virtual s',
          'offline checker over stop call/return and handler entry records with complete enumeration of fault instants per base program', [A_VT, A_OBS, A_GEN, 'enumeration is complete per base program, base programs are sampled']))

from .c12 import C12Family

fam(C12Family())
chk(Check('C12', 'exploration', ['typed_results'],
          {'c12_typed': {'quick': 1200, 'thorough': 25000}, 'c12_typed_nonclass': {'quick': 250, 'thorough': 5000}, 'c12_accessor_calls': {'quick': 20000, 'thorough': 400000}},
          'typed results: 24 declared result types (builtins, containers, unions/Optional/Literal, pydantic models, nested) declared three ways (event_result_type kwarg, BaseEvent[T] generic parameter, class field) x generated returned values (conforming, coercible, nearly-conforming, None, exception objects, events), each driven through a real bus; accessors: generated result multisets (0-5 handlers: values, None, dicts, lists, raising, returned exceptions, forwarded events, duplicate names) x all 8 flag combinations x include refinements x 7 accessors; distinct = distinct (type,value,how) / outcome lists',
          'reference-model differential on the real bus: pydantic TypeAdapter as referee for typed results (lax validate = expected outcome, strict validate of the stored value), 60-line reference implementation of the accessors written from the README', [A_VT, 'include predicates only refine the default filter (the library asserts on predicates that admit None/error results)', 'pydantic lax validation is the documented coercion semantics']))

from .c19 import RetryConcurrentFamily, RetryFamily, SemFamily

fam(RetryFamily())
fam(RetryConcurrentFamily())
fam(SemFamily())
chk(Check('C19', 'fault_enumeration', ['retry_timetable', 'retry_concurrent'],
          {'c19_cases': {'quick': 3000, 'thorough': 40000}, 'c19_attempts_checked': {'quick': 3000, 'thorough': 20000}, 'c19_cancellations': {'quick': 1500, 'thorough': 30000}},
          'EXHAUSTIVE per-attempt outcome sequences over {success, listed exception (incl. subclass), unlisted exception, overrun} for retries 0..3 (prefix-closed) x parameter grid (wait, backoff_factor incl. <1, timeout, retry_on None/tuple) [quick: 4 grid points, thorough: 18]; random large cases (retries<=7); caller cancellation at every instant +-1e-4 and midpoints of the reference timetable; each case: call instants, count, returned value / raised exception identity and instant compared with a reference timetable in exact virtual time (1e-9)',
          'reference-model differential in exact virtual time (retry timetable) with exhaustive small-scope enumeration of outcome sequences and enumerated cancellation instants', [A_VT, 'timer jitter off for exact arithmetic', 'attempt durations never tie with the per-attempt timeout']))
chk(Check('C20', 'fault_enumeration', ['retry_semaphore'],
          {'c20_callers_checked': {'quick': 8000, 'thorough': 150000}, 'c20_capacity_probes': {'quick': 2000, 'thorough': 30000}, 'c20_cancellations': {'quick': 400, 'thorough': 8000}, 'c20_multi_loop_cases': {'quick': 80, 'thorough': 1500}},
          'generated caller sets (limit 1-3; scopes global / class (two instances of one class, a second class) / self (two instances); 2-9 callers with distinct arrival and body times; raising bodies; lax and non-lax with acquisition timeouts 0.05-50 s); cancellation of one caller at enumerated instants (waiting and running); successive event loops in one process reusing the semaphore names; monitors: in-progress count per scope key at every body entry, entry instant vs FIFO counting-semaphore reference, fate vs reference, black-box capacity probe after quiescence (limit fresh callers enter at once, one more waits), registry semaphore value',
          'conservation monitor at the wrapped body + FIFO counting-semaphore reference model + capacity probe, with enumerated cancellation instants', [A_VT, 'arrival / duration / cancellation instants are pairwise distinct (no ties to arbitrate)', 'multiprocess scope is outside the property statement and not exercised']))

fam(ScenarioFamily('expect_random', ('C18', 'C01'), gen.expect_random, 1000, 10000))
fam(EnumFamily('expect_cancel_enum', ('C18',), gen.expect_base, gen.expect_cancel_derive, 20, 300, 40, 120))
chk(Check('C18', 'fault_enumeration', ['expect_random', 'expect_cancel_enum'],
          {'c18_expects': {'quick': 1500, 'thorough': 30000}, 'c18_matches': {'quick': 300, 'thorough': 6000}, 'c18_timeouts': {'quick': 300, 'thorough': 6000}, 'c18_cancellations': {'quick': 100, 'thorough': 3000}, 'c18_registry_checks': {'quick': 1500, 'thorough': 30000}},
          'event streams on 1-2 buses (serial and parallel) with 1-4 concurrent expect() calls with overlapping filters (class and name patterns, include / exclude / deprecated predicate, predicates that raise for some events, timeouts 0.05-3 s); reference: first event in processing order on that bus, begun after the call, of the requested type satisfying include and predicate and not exclude (an event whose processing interval straddles the deadline / cancellation instant may resolve either way); cancellation of the expecting task at every recorded instant -eps/+eps and midpoints; subscription registry compared with static handlers + still-pending expects at every return and at quiescence',
          'reference-model differential (first match while pending) over recorded processing histories + registry postcondition at every expect() return, with enumerated cancellation instants', [A_VT, A_OBS, 'handlers in expect scenarios do not dispatch (processing intervals on a serial bus do not nest, so processing order is unambiguous)']))



class WalFamily(ScenarioFamily):
    """C17 plus a differential clause: the same program is run again with every WAL failure removed;
    deliveries, results and completion must be identical ("a failing WAL write never affects event processing")."""

    @staticmethod
    def _summary(tr, final):
        """Schedule-independent summary: events are named structurally (who created them, in which position),
        not by creation order, because real-thread timing may reorder independent activity."""
        import collections
        inv = {r['seq']: r for r in tr if r['k'] == 'h_enter'}
        label = {}
        nth = collections.Counter()
        for r in tr:
            if r['k'] == 'disp_call' and r['ev'] not in label:
                by = r['by']
                if isinstance(by, int) and by in inv:
                    i = inv[by]
                    who = (label.get(i['ev'], ('?', i['ev'])), i['bus'], i['h'])
                else:
                    who = by
                nth[who] += 1
                label[r['ev']] = (who, nth[who])
        lab = lambda ev: str(label.get(ev, ('?', ev)))  # noqa: E731
        ent = collections.Counter((lab(r['ev']), r['bus'], r['h']) for r in tr if r['k'] == 'h_enter')
        evs = {lab(ev): (f['sig'], f['status'], sorted((x['hid'], x['status'], x['err']) for x in f['results'])) for ev, f in final['events'].items()}
        aw = sorted((r['by'], lab(r['ev']), r['exc']) for r in tr if r['k'] == 'aw_end' and isinstance(r['by'], str))
        return ent, evs, aw

    def execute(self, case, prop):
        import copy
        from . import engine
        from .run import WORK
        res = super().execute(case, prop)
        sc = case['scenario']
        failing = bool(sc.get('wal_fault')) or any(b.get('wal') in ('devfull', 'parentfile', 'isdir') for b in sc['buses'])
        if failing:
            tr1, fin1, meta1 = engine.run_scenario(sc, workdir=WORK)
            clean = copy.deepcopy(sc)
            clean.pop('wal_fault', None)
            for b in clean['buses']:
                if b.get('wal') in ('devfull', 'parentfile', 'isdir'):
                    b['wal'] = True
            tr2, fin2, meta2 = engine.run_scenario(clean, workdir=WORK)
            res.counters['c17_differential_runs'] = 1
            s1, s2 = self._summary(tr1, fin1), self._summary(tr2, fin2)
            differs = s1 != s2 or meta1.get('hang') != meta2.get('hang')
            if differs:
                # real worker-thread timing makes some programs (parallel buses) schedule-dependent by themselves: a WAL failure
                # that changes event processing changes it every time, so only a difference that repeats is a verdict
                for _rep in range(2):
                    tr1, fin1, meta1 = engine.run_scenario(sc, workdir=WORK)
                    tr2, fin2, meta2 = engine.run_scenario(clean, workdir=WORK)
                    s1, s2 = self._summary(tr1, fin1), self._summary(tr2, fin2)
                    if s1 == s2 and meta1.get('hang') == meta2.get('hang'):
                        differs = False
                        res.counters['c17_differential_unrepeatable'] = 1
                        break
            if differs:
                diff = {'deliveries': {str(k): v for k, v in ((s1[0] - s2[0]) + (s2[0] - s1[0])).items()}, 'events': [ev for ev in s1[1] if s1[1].get(ev) != s2[1].get(ev)][:5], 'awaits_equal': s1[2] == s2[2]}
                res.violations.append({'prop': 'C17', 'clause': 'wal-failure-changed-event-processing', 'mech': None, 'w': diff})
        return res


fam(WalFamily('wal', ('C17',), gen.wal_scenario, 500, 6000, workdir=True))
chk(Check('C17', 'fault_enumeration', ['wal'],
          {'c17_lines': {'quick': 1200, 'thorough': 15000}, 'c17_payloads': {'quick': 600, 'thorough': 8000}, 'c17_failed_writes': {'quick': 600, 'thorough': 8000}, 'c17_processed': {'quick': 2500, 'thorough': 30000}, 'c17_differential_runs': {'quick': 150, 'thorough': 2000}},
          'random bus programs (1-3 buses, nesting, forwarding, parallel handlers) with real WAL files under /verif/.work, generated payloads (nested containers, unicode incl. astral plane and control characters, aware/naive datetimes, big ints, extra fields); failing paths (/dev/full, parent is a regular file, path is a directory) and source-free failpoints that make the n-th anyio.open_file / the n-th write raise OSError (n sampled from 1..11); per bus: one WAL attempt per processed event, begun after all handlers of that (event,bus) exited, lines == successful attempts in order, every line validates back (id, type, parent, path at write time, payload value by value), failures logged at ERROR; differential clause: the same program re-run with every WAL failure removed shows identical deliveries, results, completion and await outcomes',
          'offline checker of real file contents against processing records + I/O fault injection at hooked open/write (failpoints) on a thread-aware virtual-time loop', [A_VT, A_OBS, A_GEN, 'payloads exclude lone surrogates and NaN/inf (not JSON round-trippable)', 'I/O faults are sampled positions (n-th open / n-th write), not an exhaustive enumeration of every position in every program']))


class RunnerExitFamily(ScenarioFamily):
    """C16, last clause: 'cancelling the bus's background task, as asyncio.run() does at exit, terminates it,
    so a program that leaves a bus running can still exit' - through the real asyncio.Runner."""

    def __init__(self):
        super().__init__('runner_exit', ('C16',), gen.stop_base, 8, 120)

    def cases(self, seed, tier, prop):
        from . import engine
        from .enumfam import instants_of
        import copy
        for i in range(self.n[tier]):
            rng = _random.Random(f'{self.name}/{seed}/{i}')
            base = gen.stop_base(rng, i)
            base.pop('loop', None)
            tr, _f, _m = engine.run_scenario(base)
            pts = instants_of(tr)
            cap = 25 if tier == 'quick' else 80
            if len(pts) > cap:
                pts = [pts[k] for k in sorted(rng.sample(range(len(pts)), cap))]
            for j, t in enumerate(pts):
                yield {'family': self.name, 'i': i, 'j': j, 't': t, 'scenario': copy.deepcopy(base)}

    def execute(self, case, prop):
        from . import engine
        from .core import Result
        ok, detail = engine.run_runner_exit(case['scenario'], case['t'])
        engine.maybe_gc()
        res = Result(counters={'c16_runner_exits': 1, 'c16_runner_exits_with_running_bus': 1 if detail.get('running_buses') else 0})
        if not ok:
            res.violations.append({'prop': 'C16', 'clause': 'asyncio-run-never-returns', 'mech': None, 'w': detail})
        res.nontrivial = bool(detail.get('running_buses'))
        res.fingerprint = f"{case['i']}:{detail.get('tasks_before_close')}:{detail.get('running_buses')}:{round(case['t'], 4)}"
        res.sample = {'family': self.name, 't_exit': case['t'], 'detail': detail, 'buses': case['scenario']['buses'], 'actors': case['scenario']['actors'][:2]}
        return res


fam(RunnerExitFamily())
CHECKS['C16'].families.append('runner_exit')
fam(EnumFamily('walcancel_enum', ('C16',), gen.walcancel_base, gen.walcancel_derive, 5, 60, 30, 100, workdir=True))
CHECKS['C16'].floors['c16_runloop_cancels_inside_its_own_wal_append'] = {'quick': 5, 'thorough': 50}
CHECKS['C16'].families.append('walcancel_enum')  # run-loop cancellation landing between the thread hand-offs of the run loop's own WAL append
CHECKS['C16'].floors['c16_runner_exits_with_running_bus'] = {'quick': 100, 'thorough': 4000}
CHECKS['C16'].rule += '; plus the real asyncio.Runner path: the main coroutine returns at every enumerated instant leaving buses running and handlers in flight, Runner.close() (cancel all tasks, gather) must finish within 30 virtual seconds'


class NoLoopFamily(ScenarioFamily):
    """C14: dispatch() outside a running event loop must raise and leave no trace (fresh bus, bus used in an
    earlier loop, bus with handlers / history limits)."""

    def __init__(self):
        super().__init__('noloop', ('C14',), None, 40, 400)

    def cases(self, seed, tier, prop):
        for i in range(self.n[tier]):
            rng = _random.Random(f'noloop/{seed}/{i}')
            yield {'family': self.name, 'i': i, 'used_before': rng.random() < 0.5, 'hist': rng.choice([None, 1, 5, 50]), 'n': rng.randint(1, 4), 'stopped': rng.random() < 0.5}

    def execute(self, case, prop):
        import asyncio
        from . import engine
        from .core import Result
        from .vloop import VLoop, hard_close
        engine.reset_globals(case['i'])
        res = Result(counters={})
        bus = engine.EventBus(name='NL', max_history_size=case['hist'])
        bus.on(engine.E0, lambda e: None) if False else None
        if case['used_before']:
            loop = VLoop(seed=case['i'])
            asyncio.set_event_loop(loop)

            async def warm():
                await bus.dispatch(engine.E0(tag=1))
                if case['stopped']:
                    await bus.stop()
            try:
                loop.run_until_complete(warm())
            finally:
                bus._is_running = False
                hard_close(loop)
        before = dict(bus.event_history)
        for k in range(case['n']):
            ev = engine.E1(tag=100 + k)
            res.counters['c14_rejections'] = res.counters.get('c14_rejections', 0) + 1
            res.counters['c14_noloop_dispatches'] = res.counters.get('c14_noloop_dispatches', 0) + 1
            try:
                bus.dispatch(ev)
                res.violations.append({'prop': 'C14', 'clause': 'dispatch-without-loop-did-not-raise', 'mech': None, 'w': dict(case)})
            except RuntimeError:
                pass
            except BaseException as ex:
                res.violations.append({'prop': 'C14', 'clause': 'dispatch-without-loop-raised-unexpected', 'mech': None, 'w': dict(case, exc=repr(ex)[:120])})
            if ev.event_id in bus.event_history or ev.event_path or ev.event_parent_id is not None:
                res.violations.append({'prop': 'C14', 'clause': 'rejected-dispatch-left-a-trace', 'mech': None, 'w': dict(case, path=list(ev.event_path), inhist=ev.event_id in bus.event_history)})
        if set(bus.event_history) != set(before):
            res.violations.append({'prop': 'C14', 'clause': 'history-changed-by-rejected-dispatch', 'mech': None, 'w': dict(case)})
        res.nontrivial = True
        res.fingerprint = f"nl:{case['used_before']}:{case['hist']}:{case['n']}:{case['stopped']}"
        res.sample = dict(case)
        return res


fam(NoLoopFamily())
CHECKS['C14'].families.append('noloop')
CHECKS['C14'].families.append('single')
CHECKS['C14'].families.append('shapes')
CHECKS['C14'].families.append('stop_enum')  # dispatches (from handlers, forwards, top-level code) to a bus that is stopping / stopped
CHECKS['C14'].floors['c14_noloop_dispatches'] = {'quick': 50, 'thorough': 500}


CHECKS['C06'].families.append('manual_step')
CHECKS['C08'].families.append('fwdback_timeout_enum')
CHECKS['C02'].families.append('capacity')  # bursts that fill the bounded queue: order among accepted events, rejected ones aside
CHECKS['C07'].families.append('late_fwd')
CHECKS['C15'].families.append('stop_enum')  # wait_until_idle() on a bus that was stopped clean (a plain stopped bus abandons its backlog by design and stays excluded)
CHECKS['C10'].families.append('cyclic_timeout_enum')  # one narrow circular child graph (the root handed on by its own child) under the enumerated timeout
CHECKS['C11'].families.append('strict_warnings')  # programs run with UserWarning promoted to an error
CHECKS['C08'].families.append('stop_enum')  # a bus stopped while another bus's handler is processing one of its events inline
CHECKS['C15'].families.append('spawn')  # wait_until_idle() called by a task that a handler created (a flush task outliving its handler)
CHECKS['C10'].families.append('retry_handler_timeout_enum')  # handlers decorated with @retry(semaphore_limit=1): the timeout fires while one still waits for its slot
CHECKS['C05'].families.append('spawn')  # what a stale fire-and-forget task left behind must not let unrelated work into a later await
CHECKS['C08'].families.append('rehydrated')  # event objects rebuilt from dumps of finished events, dispatched again; children observed when the parent's processing ends
for _p in ('C01', 'C03', 'C09', 'C11'):
    CHECKS[_p].families.append('odd_timeout')  # generous timeouts on long-lived event objects; zero / negative timeouts
CHECKS['C02'].families.append('stop_enum')  # another bus stopped / cleared while this one is mid-handler: order and one-at-a-time must not depend on it
CHECKS['C10'].families.append('fwdback_timeout_enum')  # a forwarded-back event that has already signalled gets fresh pending results inside a timed handler's drain
for _p in ('C06', 'C10', 'C02'):
    CHECKS[_p].families.append('double_cancel_enum')  # a second cancellation while the first one is still being cleaned up

# ---- what the families added after the first build contribute (kept next to the registrations above; goes into the evidence text)
_ALSO = {
    'C01': 'handlers registered while the program runs (required / optional / forbidden deliveries by registration instant), one function object registered on several buses / patterns, same-name buses, awkward exception classes (unhashable, two-argument, chained); generous (never expiring) timeouts on event objects created long before their dispatch, zero / negative timeouts (an async handler cut before its first step counts as a delivery cut at once)',
    'C02': 'timeout programs (handlers that need time to unwind, forwards to a second bus, blocking sync siblings); the F1 exception applies only when the bus\'s own run loop had taken the overtaken event; stop() programs (another bus stopped / cleared mid-handler)',
    'C03': 'handlers registered late, events awaited by several parties, deep fire-and-forget chains under tiny history limits, zero / negative / never-expiring event timeouts',
    'C04': 'children awaited through asyncio.gather helper tasks, awaited twice / by siblings / although dispatched by top-level code, explicit parents',
    'C05': 'stop() programs with long in-handler awaits; every dequeue records whether the drain\'s awaited event was already complete (F0 covers only entries taken before that); fire-and-forget tasks that outlive their handler and await when everything is idle, followed by two-bus traffic',
    'C07': 're-dispatch of the same object to the same and to other buses (reach set and path re-evaluated), buses created under one requested name, forwarding under small history limits; EventBus subclasses whose instances are falsy while their queue is empty (__len__ = backlog)',
    'C08': 'every complete event re-observed and awaited from a SECOND event loop after the first one was closed; accessor calls on completed events; timeout programs; event objects rebuilt from dumps of finished events and dispatched again, children observed when the parent\'s processing ends; a bus stopped while another bus\'s handler processes one of its events inline',
    'C09': 'events dispatched from the cancellation clean-up of timed-out handlers, explicit parents, handlers registered late, event objects constructed before the program starts and dispatched by a handler later',
    'C10': 'forwards to a second (parallel) bus, blocking sync siblings (deadline window, delivery delayed by blocking stretches), clean-up dispatch, user-raised TimeoutError, zero / negative timeouts (events count as touched: must complete with TimeoutError results)',
    'C11': 'typed events with returned exceptions; unhashable / two-argument / chained exception objects; raise instants enumerated against a sibling\'s awaited child; falsy exception objects (__len__ 0 / __bool__ False); programs run with UserWarning promoted to an error',
    'C12': 'falsy and two-argument exception objects raised and returned; result types declared by a subclass of an already instantiated typed parent class; constrained (Annotated) result types',
    'C13': 'forwarded in-flight events under small limits, handler-less events',
    'C14': 'stop() programs (dispatch to a stopping / stopped bus from handlers, forwards and actors); an event not in the queue when dispatch() returns counts as dropped',
    'C15': 'timeout programs, in-handler awaits bounded by asyncio.wait_for placed at every instant, two concurrent callers (one leaving early); callers still blocked after W silent seconds are recorded before the harness probes',
    'C16': 'stop(clear=True), double and two-bus stops, stop() from inside handlers, parallel buses, asyncio.Runner exit, raw cancellation of the run-loop task between the thread hand-offs of its own WAL append',
    'C17': 'payloads without a JSON encoding (non-UTF-8 bytes, arbitrary objects, lone surrogates) count as failing writes',
    'C18': 'bus names of up to 250 characters (the listener expect() registers is named after the bus); sized (falsy) buses',
    'C19': 'timeout=None; 2-4 overlapping calls of one decorated function / method, each against its own timetable; exception texts with braces, percent signs and control characters; awaitable return values (Future / Task / coroutine object) returned as they are',
    'C20': 'an unrelated class with the same __name__, a second function naming the same semaphore, 70 instance-scoped keys, cancellation k loop iterations after the victim\'s own acquisition instant with the load probe due; caller instances that compare equal and hash alike (value objects); caller tasks created inside an execution that holds a slot',
}
for _p, _t in _ALSO.items():
    CHECKS[_p].rule += ' | added later: ' + _t
