"""Offline oracles over a recorded trace + final snapshot.

Every oracle is a pure function  (Index) -> None  that appends to ix.V (violations) and bumps
ix.C (counters of NON-VACUOUS evaluations).  A violation is
    {'prop', 'clause', 'mech' (None | 'F0' | 'F1' | ...), 'w': witness dict}
`mech` is set only when the witness satisfies the full signature of a recorded finding
(DESIGN.md section 3); whether that finding is listed for that property is decided later against
known_findings.json.  Oracles never look at bus iteration order and never read library-private
state: everything comes from records made at the client boundary by engine.py.
"""
from __future__ import annotations

import collections
import hashlib

EPS = 1e-6


def type_key(t) -> str:
    return 'PinnedWire6' if t == 6 else f'E{t}'


def pattern_key(pat) -> str:
    if pat == '*':
        return '*'
    if isinstance(pat, int):
        return 'P6' if pat == 6 else f'E{pat}'
    return pat


def pat_matches(pat, t: int) -> bool:
    """Subscriptions are filed by name: a class pattern is shorthand for the class __name__, and an event is looked
    up by the event_type it carries (for a class that pins its event_type those two differ)."""
    return pat == '*' or pattern_key(pat) == type_key(t)


class Index:
    def __init__(self, sc: dict, tr: list, final: dict, meta: dict):
        # everything recorded after the final snapshot is the harness tearing the scenario down (stop, cancellation): not part of it
        fin_seq = next((r['seq'] for r in tr if r['k'] == 'final'), None)
        if fin_seq is not None:
            tr = [r for r in tr if r['seq'] <= fin_seq]
        self.sc, self.R, self.final, self.meta = sc, tr, final or {'events': {}, 'buses': {}, 'log': []}, meta
        self.V: list[dict] = []
        self.C: collections.Counter = collections.Counter()
        self.par = [bool(b.get('par')) for b in sc['buses']]
        R = tr
        self.inv = {r['seq']: r for r in R if r['k'] == 'h_enter'}
        self.exit = {r['inv']: r for r in R if r['k'] == 'h_exit'}
        self.evtype = {r['ev']: r['t'] for r in R if r['k'] == 'mk'}
        self.mk = {r['ev']: r for r in R if r['k'] == 'mk'}
        self.enq_ok = [r for r in R if r['k'] == 'enq_ok']
        self.accepted: dict = collections.OrderedDict()
        for r in self.enq_ok:
            self.accepted.setdefault((r['ev'], r['bus']), r)
        self.parent_of: dict[int, int] = {}
        self.disp_by: dict[int, object] = {}
        self.rejected_all: set[int] = set()
        ok_ev = {r['ev'] for r in R if r['k'] == 'disp_ok'}
        for r in R:
            if r['k'] == 'disp_call':
                self.disp_by.setdefault(r['ev'], r['by'])
                if r['parent'] is not None and r['parent'] != r['ev'] and r['ev'] in ok_ev:
                    self.parent_of.setdefault(r['ev'], r['parent'])
        self.kids: dict[int, list[int]] = collections.defaultdict(list)
        for c, p in self.parent_of.items():
            self.kids[p].append(c)
        self._desc: dict[int, frozenset] = {}
        self.procs: dict[int, dict] = {}
        self.procs_by: dict[tuple, list] = collections.defaultdict(list)
        for r in R:
            if r['k'] == 'proc_begin':
                p = {'b': r, 'e': None}
                self.procs[r['seq']] = p
                self.procs_by[(r['ev'], r['bus'])].append(p)
            elif r['k'] == 'proc_end':
                self.procs[r['pid']]['e'] = r
        self.deqs = [r for r in R if r['k'] == 'deq']
        self.quiet_seq = next((r['seq'] for r in R if r['k'] == 'quiet'), 10**12)
        self.awaits = []
        open_aw = {}
        for r in R:
            if r['k'] == 'aw_begin':
                a = {'by': r['by'], 'ev': r['ev'], 'b': r, 'e': None}
                self.awaits.append(a)
                open_aw.setdefault((r['by'], r['ev']), []).append(a)
            elif r['k'] == 'aw_end':
                lst = open_aw.get((r['by'], r['ev']))
                if lst:
                    a = lst.pop(0)
                    if r['seq'] < self.quiet_seq:  # an await only "returned" by tear-down cancellation never returned
                        a['e'] = r
        self.end_seq = R[-1]['seq'] + 1 if R else 0
        self.has_spawn = any(r['k'] == 'spawn' for r in R)
        self.reg_seq = {r['h']: r['seq'] for r in R if r['k'] == 'on'}
        self.gparent = {g: r['by'] for r in R if r['k'] == 'gather' for g in r['gids']}  # gather helper task -> awaiting handler
        self._hf_cache = {}
        self.sane = not meta.get('hang') and not meta.get('abort')
        # payload specs the harness attached to events it created (scenario ops carry them)
        self.payloads = {}
        specs = []
        for a in sc.get('actors', []):
            for op in a:
                if op[0] == 'disp' and len(op) > 5 and op[5] and op[5].get('payload') is not None:
                    specs.append(op[5]['payload'])
        self._payload_specs = specs
        for r in R:
            if r['k'] == 'mk' and r.get('payload') is not None:
                self.payloads[r['ev']] = r['payload']

    # ------------------------------------------------------------------ helpers
    def nonpos_timeout(self, ev: int) -> bool:
        to = self.mk.get(ev, {}).get('timeout')
        return to is not None and to <= 0

    def v(self, prop: str, clause: str, mech=None, **w) -> None:
        self.V.append({'prop': prop, 'clause': clause, 'mech': mech, 'w': w})

    def desc(self, ev: int) -> frozenset:
        d = self._desc.get(ev)
        if d is None:
            out, st = set(), [ev]
            while st:
                x = st.pop()
                for c in self.kids.get(x, ()):
                    if c not in out:
                        out.add(c)
                        st.append(c)
            d = self._desc[ev] = frozenset(out)
        return d

    def root_of(self, hi: int) -> int:
        seen = set()
        hs = self.sc['handlers']
        while 'same_as' in hs[hi] and hi not in seen:
            seen.add(hi)
            hi = hs[hi]['same_as']
        return hi

    def handlers_for(self, ev: int, bus: int):
        """Distinct handler FUNCTIONS registered on `bus` under a pattern matching the event: one function object registered under
        two matching patterns (or twice) is one handler of that bus and is delivered the event once."""
        return self._handlers_for(ev, bus)[0]

    def optional_handlers_for(self, ev: int, bus: int):
        """Handlers registered (actor op 'on') after the bus accepted the event but before it began to process it: the library
        selects handlers when processing starts, so they do run; an implementation that fixed the set at dispatch would satisfy
        the property as well, so for these 0 or 1 deliveries are both accepted."""
        return self._handlers_for(ev, bus)[1]

    def _handlers_for(self, ev: int, bus: int):
        key = (ev, bus)
        c = self._hf_cache.get(key)
        if c is not None:
            return c
        t = self.evtype.get(ev)
        must, maybe = [], []
        acc = self.accepted.get(key)
        acc_seq = acc['seq'] if acc is not None else 0
        procs = self.procs_by.get(key, [])
        last_begin = max((p['b']['seq'] for p in procs), default=10**12)
        for hi, h in enumerate(self.sc['handlers']):
            if h['bus'] == bus and pat_matches(h['pat'], t):
                r = self.root_of(hi)
                reg = 0 if not h.get('late') else self.reg_seq.get(hi)
                if reg is None or reg > last_begin:
                    continue  # never registered, or only after the (last) processing of this event on this bus began
                if reg < acc_seq:
                    if r in maybe:
                        maybe.remove(r)
                    if r not in must:
                        must.append(r)
                elif r not in must and r not in maybe:
                    maybe.append(r)
        self._hf_cache[key] = (must, maybe)
        return must, maybe

    def via_forward(self, ev: int, bus: int) -> bool:
        """F4 applies to `bus` for this event: the event was accepted by several buses (forwarding, or user code dispatching the
        same object to a second bus) and `bus` is not the one that finished processing it first. Results for a bus are created only
        when that bus starts processing, so everything such a bus contributes arrives after the event first looked complete."""
        r = self.accepted.get((ev, bus))
        if r is None:
            return False
        buses = {b for (e, b) in self.accepted if e == ev}
        if len(buses) < 2:
            return False
        ends = [(p['e']['seq'], b) for (e, b), lst in self.procs_by.items() if e == ev for p in lst if p['e'] is not None]
        if ends:
            return bus != min(ends)[1]
        first = min((q['seq'], b) for (e, b), q in self.accepted.items() if e == ev)
        return bus != first[1]

    def f4_begin_seq(self, ev: int, bus, depth=0) -> float:
        """Trace position at which the forwarded-bus processing that an F4 attribution rests on BEGAN (inf: never began)."""
        if bus is not None and self.via_forward(ev, bus):
            lst = self.procs_by.get((ev, bus), [])
            return lst[0]['b']['seq'] if lst else float('inf')
        inv = self.disp_by.get(ev)
        while isinstance(inv, int) and inv in self.inv and depth < 50:
            r = self.inv[inv]
            if self.via_forward(r['ev'], r['bus']):
                p = self.procs.get(r.get('pid'))
                return p['b']['seq'] if p is not None else r['seq']
            inv = self.disp_by.get(r['ev'])
            depth += 1
        return float('inf')

    def f4_explains(self, ev: int, bus, root: int, at_seq: int) -> bool:
        """F4 on the current tree: the awaited event was found complete while the forwarded event's later bus had not yet BEGUN its
        processing (results exist only from then on). Once that processing has begun the event reads 'started' and the completion
        check of everything above it fails - an event released after that moment is not explained by F4."""
        sig = [r for r in self.R if r['k'] == 'sig_set' and r['ev'] == root and r['seq'] < at_seq]
        if not sig:
            return True
        return self.f4_begin_seq(ev, bus) > sig[-1]['seq']

    def tainted_inv(self, inv, depth=0) -> bool:
        """Invocation runs on a bus its event reached by forwarding, or lies causally below such a one."""
        if not isinstance(inv, int) or inv not in self.inv or depth > 50:
            return False
        r = self.inv[inv]
        if self.via_forward(r['ev'], r['bus']):
            return True
        return self.tainted_inv(self.disp_by.get(r['ev']), depth + 1)

    def driver_chain(self, inv: int) -> list:
        """[inv, driver of its process_event, driver of that one's, ...] ending in 'R<i>' / 'S<k>' / 'T' / '?'."""
        out = [inv]
        seen = set()
        cur = inv
        while isinstance(cur, int) and cur in self.inv and cur not in seen:
            seen.add(cur)
            pid = self.inv[cur].get('pid')
            if pid is None or pid not in self.procs:
                out.append('?')
                break
            cur = self.procs[pid]['b']['drv']
            out.append(cur)
        return out

    def open_awaits_at(self, seq: int):
        return [a for a in self.awaits if a['b']['seq'] < seq and (a['e'] is None or a['e']['seq'] > seq)]

    def held_by_other(self, ev: int, at_seq: int, me) -> bool:
        """Was `ev` (on any bus) in the hands of a party other than `me`'s own drain at `at_seq`:
        dequeued / processing begun, and that processing not finished by then."""
        for d in self.deqs:
            if d['ev'] != ev or d['seq'] > at_seq or d['by'] == me:
                continue
            # find the process_event this dequeue led to (first proc_begin of (ev,bus) after the deq)
            p = next((p for p in self.procs_by.get((ev, d['bus']), []) if p['b']['seq'] > d['seq']), None)
            if p is None or p['e'] is None or p['e']['seq'] > at_seq:
                if p is not None and p['b']['drv'] == me:
                    continue
                return True
        for p in self.procs_by_ev(ev):
            if p['b']['seq'] < at_seq and p['b']['drv'] != me and (p['e'] is None or p['e']['seq'] > at_seq):
                return True
        return False

    def procs_by_ev(self, ev: int):
        for (e, _b), lst in self.procs_by.items():
            if e == ev:
                yield from lst

    def explain_incomplete(self, why: list, at_seq: int, me, root: int):
        """Attribute every leaf cause of an incompleteness witness. Returns set of mechanisms, with
        None in it when some leaf cause matches no recorded finding's signature."""
        mechs = set()
        items_by_ev = collections.defaultdict(list)
        for it in why:
            items_by_ev[it[1]].append(it)
        # F1 dooms the await: once a needed event is in the hands of a party that cannot finish it, the polling loop runs out of
        # its 1000 rounds; a lineage descendant of that event which is still sitting in a queue, untouched, at that moment is an
        # incidental part of the same incompleteness
        # F5 (timeout programs): an event whose processing was abandoned by a cancellation never signals, nor do its ancestors; the
        # exact signature (which pending results and which ancestors F5 does NOT explain) is the one used for C10
        ab_events = {p['b']['ev'] for p in abandoned_procs(self) if p.get('cancel_seq', 0) < at_seq}  # (abandoned before this await ended)
        if ab_events and not (isinstance(me, str) and me[:1] in ('S', 'G')):
            # (only timeouts whose path had run by the time of this witness can have covered anything)
            fired = [f_ for f_ in _fired_invocations(self) if self.exit.get(f_) is not None and self.exit[f_]['seq'] < at_seq]
            rest = []
            for it in why:
                ev = it[1]
                touched = ev in ab_events or bool(self.desc(ev) & ab_events)
                if not touched:
                    rest.append(it)
                    continue
                if it[0] == 'nosig':
                    if any(x[1] == ev and x[0] == 'result' for x in why):
                        continue  # judged through its result items
                    mechs.add(_c10_mech(self, ev, fired))
                elif it[3] == 'pending':
                    mechs.add(_c10_mech(self, ev, fired, 'pending'))
                else:
                    mechs.add(_c10_mech(self, ev, fired))
            why = rest
            items_by_ev = collections.defaultdict(list)
            for it in why:
                items_by_ev[it[1]].append(it)
        f1_held = {it[1] for it in why if it[0] == 'result' and self.held_by_other(it[1], at_seq, me)}
        dequeued = {d['ev'] for d in self.deqs if d['seq'] < at_seq}
        for it in why:
            ev = it[1]
            if it[0] == 'nosig' and ev not in dequeued and not isinstance(me, str) and any(ev in self.desc(h) for h in f1_held):
                if not any(x[0] == 'result' for x in items_by_ev[ev]):
                    mechs.add('F1')
                    continue
            if it[0] == 'nosig':
                # derivative if the event itself or a descendant has another item
                if any(x[0] == 'result' for x in items_by_ev[ev]):
                    continue
                if any(d in items_by_ev for d in self.desc(ev)):
                    continue
                leaf_mech = None
                if isinstance(me, str) and me[:1] in ('S', 'G'):
                    leaf_mech = 'F14'
                elif self.held_by_other(ev, at_seq, me):
                    leaf_mech = 'F1'
                elif self.tainted_inv(self.disp_by.get(ev)) or any(self.via_forward(ev, b) for (e, b) in self.accepted if e == ev):
                    fb = next((b for (e, b) in self.accepted if e == ev and self.via_forward(ev, b)), None)
                    leaf_mech = 'F4' if self.f4_explains(ev, fb, root, at_seq) else None
                mechs.add(leaf_mech)
            else:
                _k, _ev, label, _st = it
                bus = int(label[1:label.index('.')]) if label.startswith('B') and '.' in label else None
                leaf_mech = None
                if isinstance(me, str) and me[:1] in ('S', 'G'):
                    leaf_mech = 'F14'
                elif bus is not None and (self.via_forward(ev, bus) or self.tainted_inv(self.disp_by.get(ev))):
                    leaf_mech = 'F4' if self.f4_explains(ev, bus, root, at_seq) else None
                elif self.held_by_other(ev, at_seq, me):
                    leaf_mech = 'F1'
                mechs.add(leaf_mech)
        return mechs

    def fingerprint(self) -> str:
        h = hashlib.blake2b(digest_size=8)
        for r in self.R:
            k = r['k']
            if k in ('h_enter', 'proc_begin', 'deq', 'aw_begin', 'aw_end', 'enq_ok', 'h_exit', 'idle_ret', 'stop_ret', 'exp_ret'):
                h.update(f"{k}:{r.get('bus')}:{r.get('h')}:{r.get('drv') if not isinstance(r.get('drv'), int) else 'I'}:{r.get('out')};".encode())
        return h.hexdigest()


# ======================================================================== C01
def c01(ix: Index) -> None:
    if not ix.sane:
        return
    entered = collections.Counter((r['ev'], r['bus'], r['h']) for r in ix.inv.values())
    fin = ix.final['events']
    stopped = _stopped_buses(ix)
    for (ev, bus) in ix.accepted:
        if bus in stopped:
            continue  # a stopped bus abandons its backlog by design
        for hi in ix.handlers_for(ev, bus):
            n = entered.get((ev, bus, hi), 0)
            ix.C['c01_deliveries'] += 1
            if n != 1:
                mech = None
                res = next((x for x in fin.get(ev, {}).get('results', []) if x['hid'] == f'B{bus}.h{hi}'), None)
                if n == 0 and ix.nonpos_timeout(ev) and not ix.sc['handlers'][hi].get('kind', 'async').startswith('s') and res is not None and res['err'] == 'TimeoutError':
                    # the event's timeout is zero or negative: the delivery to an async handler is made and cut by the timeout at
                    # once, before the coroutine's first step (asyncio.wait_for with a non-positive timeout) - C10's business
                    ix.C['c01_deliveries_cut_at_once_by_a_nonpositive_timeout'] += 1
                    continue
                if n == 0 and res is not None and res['err'] == 'RuntimeError' and _self_recursion_depth(ix, ev, hi) >= 3:
                    mech = 'F2c'
                ix.v('C01', 'delivery-count', mech, ev=ev, bus=bus, h=hi, n=n, result=res)
        for hi in ix.optional_handlers_for(ev, bus):
            n = entered.get((ev, bus, hi), 0)
            ix.C['c01_deliveries_to_handlers_registered_in_flight'] += 1
            if n > 1:
                ix.v('C01', 'delivery-count', None, ev=ev, bus=bus, h=hi, n=n, registered='between accept and processing')
    for (ev, bus, hi), n in entered.items():
        if (ev, bus) not in ix.accepted:
            ix.v('C01', 'ran-for-unaccepted', None, ev=ev, bus=bus, h=hi)
        elif hi not in ix.handlers_for(ev, bus) and hi not in ix.optional_handlers_for(ev, bus):
            ix.v('C01', 'ran-for-handler-not-registered-in-time', None, ev=ev, bus=bus, h=hi)
    # event_results has exactly one entry per expected (bus, handler)
    for ev, f in fin.items():
        if any(e == ev and bus in stopped for (e, bus) in ix.accepted):
            continue
        want = collections.Counter(f'B{bus}.h{hi}' for (e, bus) in ix.accepted if e == ev for hi in ix.handlers_for(ev, bus))
        got = collections.Counter(x['hid'] for x in f['results'] if '.h' in x['hid'])
        for k in {f'B{bus}.h{hi}' for (e, bus) in ix.accepted if e == ev for hi in ix.optional_handlers_for(ev, bus)}:
            if got.get(k) == 1:
                want[k] = 1  # registered between accept and processing: an entry is allowed, not required
        if want != got:
            mech = 'F2c' if all(_self_recursion_depth(ix, ev, int(k.split('.h')[1])) >= 3 for k in (want - got)) and not (got - want) and (want - got) else None
            ix.v('C01', 'result-entries', mech, ev=ev, want=dict(want), got=dict(got))


def _self_recursion_depth(ix: Index, ev: int, hi: int) -> int:
    """How many ancestors of ev (harness lineage) were dispatched by an invocation of handler hi."""
    d, cur, seen = 0, ev, set()
    while cur in ix.parent_of and cur not in seen:
        seen.add(cur)
        by = ix.disp_by.get(cur)
        if isinstance(by, int) and by in ix.inv and ix.inv[by]['h'] == hi:
            d += 1
        cur = ix.parent_of[cur]
    return d


# ======================================================================== C02
def c02(ix: Index) -> None:
    R = ix.R
    per_bus = collections.defaultdict(list)
    for (ev, bus), r in ix.accepted.items():
        per_bus[bus].append((r['seq'], ev))
    first_pb = {}
    for (ev, bus), lst in ix.procs_by.items():
        if lst:
            first_pb[(ev, bus)] = lst[0]['b']
    for bus, order in per_bus.items():
        order.sort()
        for i in range(len(order)):
            e1 = order[i][1]
            p1 = first_pb.get((e1, bus))
            for j in range(i + 1, len(order)):
                e2 = order[j][1]
                p2 = first_pb.get((e2, bus))
                if p2 is None:
                    continue
                ix.C['c02_pairs'] += 1
                if p1 is not None and p1['seq'] < p2['seq']:
                    continue
                # e2 was taken before e1: allowed only if e2 was awaited (or a descendant of an awaited event) then
                allowed = False
                for a in ix.open_awaits_at(p2['seq']):
                    if not isinstance(a['by'], int):
                        continue
                    if e2 == a['ev'] or e2 in ix.desc(a['ev']):
                        allowed = True
                        break
                if allowed:
                    ix.C['c02_allowed_jumps'] += 1
                    continue
                # F1 signature: the overtaken event had already been dequeued by a party that could not start it yet
                # (the bus's own run loop took it with queue.get() and is waiting for the global lock; an awaiting handler's drain, in
                # contrast, starts what it takes at once - an event taken by a drain and then held back is not this mechanism)
                d1 = [d for d in ix.deqs if d['bus'] == bus and d['ev'] == e1 and d['seq'] < p2['seq'] and not isinstance(d['by'], int)]
                mech = 'F1' if d1 and (p1 is None or p1['seq'] > p2['seq']) else None
                if mech is None and ix.has_spawn:
                    mech = 'F14'
                ix.v('C02', 'inversion', mech, bus=bus, first=e1, then=e2, p2=p2['seq'], p2drv=p2['drv'])
    # clause 2: a serial bus does not start a later event while a handler of an earlier one runs un-suspended
    running: dict[int, dict] = {}
    aw_depth: collections.Counter = collections.Counter()
    for r in R:
        k = r['k']
        if k == 'h_enter':
            running[r['seq']] = r
        elif k == 'h_exit':
            running.pop(r['inv'], None)
        elif k == 'aw_begin' and isinstance(r['by'], int):
            aw_depth[r['by']] += 1
        elif k == 'aw_end' and isinstance(r['by'], int):
            aw_depth[r['by']] -= 1
        elif k == 'proc_begin' and not ix.par[r['bus']]:
            for i2, r2 in running.items():
                if r2['bus'] == r['bus'] and r2['ev'] != r['ev']:
                    ix.C['c02_serial_checks'] += 1
                    if aw_depth[i2] <= 0:
                        ix.v('C02', 'started-while-running', _overlap_mech(ix, r['drv'], i2), bus=r['bus'], ev=r['ev'], running=r2['ev'], h=r2['h'])


def _overlap_mech(ix: Index, new_driver, other_inv: int):
    c1 = ix.driver_chain(new_driver) if isinstance(new_driver, int) else [new_driver]
    c2 = ix.driver_chain(other_inv)
    if any(isinstance(x, str) and x.startswith('S') for x in c1 + c2):
        return 'F14'
    for x in c1:
        for y in c2:
            if isinstance(x, int) and isinstance(y, int) and x != y and x in ix.inv and y in ix.inv:
                a, b = ix.inv[x], ix.inv[y]
                if a['ev'] == b['ev'] and a['bus'] == b['bus'] and ix.par[a['bus']]:
                    return 'F16'
    return None


# ======================================================================== C03 / C04
def _join(mechs):
    if not mechs or None in mechs:
        return None
    return '+'.join(sorted(mechs))


def c03(ix: Index) -> None:
    for a in ix.awaits:
        if not (isinstance(a['by'], str) and a['by'].startswith('A')):
            continue
        ix.C['c03_awaits'] += 1
        e = a['e']
        if e is None:
            st = _actor_fate(ix, a['by'])
            if st == 'cancelled':
                continue
            if _stopped_buses(ix):
                continue  # stop() abandons a bus's backlog by design: whoever awaits one of those events waits forever
            if ix.sane or ix.meta.get('hang') in ('deadlock',):
                tree = {a['ev']} | ix.desc(a['ev'])
                if abandoned_procs(ix) and not ix.has_spawn:
                    # timeout programs: the exact F5 signature (an event whose handler timed out, with everything abandoned below it
                    # covered by that very timeout, DOES complete on the current tree: its non-completion is not F5)
                    mech = _c10_mech(ix, a['ev'], _fired_invocations(ix))
                else:
                    mech = _hang_mech(ix, tree)
                ix.v('C03', 'await-never-returns', mech, ev=a['ev'], by=a['by'])
            continue
        if e['exc'] is not None:
            if e['exc'] != 'CancelledError':
                ix.v('C03', 'await-raised', None, ev=a['ev'], exc=e['exc'])
            continue
        if not e['same']:
            ix.v('C03', 'await-returned-other-object', None, ev=a['ev'])
        if e['why']:
            mechs = ix.explain_incomplete(e['why'], e['seq'], a['by'], a['ev'])
            mech = _join(mechs)
            ix.v('C03', 'returned-before-tree-done', mech, ev=a['ev'], why=e['why'][:6], mechs=sorted(map(str, mechs)))
        else:
            # released without further stimulus: not later than 0.3 virtual s after the last processing step of its tree
            tree = {a['ev']} | ix.desc(a['ev'])
            ends = [p['e']['vt'] for ev in tree for p in ix.procs_by_ev(ev) if p['e'] is not None and p['e']['seq'] < e['seq']]
            if ends and e['vt'] > max(max(ends), a['b']['vt']) + 0.3:
                ix.v('C03', 'released-late', None, ev=a['ev'], done_at=max(ends), returned_at=e['vt'])


def _actor_fate(ix: Index, by: str) -> str:
    for r in reversed(ix.R):
        if r['k'] == 'a_end' and r['by'] == by and r['exc'] == 'cancel' and r['seq'] < ix.quiet_seq:
            return 'cancelled'  # cancelled by another actor during the scenario (tear-down cancellation does not count)
    return 'blocked'


def abandoned_procs(ix: Index) -> list:
    """process_event calls that were open inside the inline drain of a handler at the moment that handler
    was cancelled (by its own timeout, or because an enclosing handler's timeout cancelled it): the F5 mechanism."""
    cached = getattr(ix, '_abandoned', None)
    if cached is not None:
        return cached
    out = []
    for x in ix.exit.values():
        if x['out'] != 'cancel' or x['seq'] >= ix.quiet_seq:
            continue  # cancellations made by the harness's tear-down are not part of the scenario
        for p in ix.procs.values():
            if p['b']['drv'] == x['inv'] and p['b']['seq'] < x['seq'] and (p['e'] is None or p['e']['seq'] >= x['seq'] or p['e']['exc'] is not None):
                p['cancel_seq'] = x['seq']
                out.append(p)
    # the same mechanism without any handler being cancelled: the handler bounded its own wait (`asyncio.wait_for(child, T)`)
    # and T expired while its inline drain was inside a process_event
    wf = {(r['by'], r['ev']) for r in ix.R if r['k'] == 'wf_timeout'}
    for a in ix.awaits:
        e = a['e']
        if e is None or e['exc'] != 'CancelledError' or (a['by'], a['ev']) not in wf:
            continue
        for p in ix.procs.values():
            if p in out:
                continue
            if p['b']['drv'] == a['by'] and a['b']['seq'] < p['b']['seq'] < e['seq'] and (p['e'] is None or p['e']['seq'] >= e['seq'] or p['e']['exc'] is not None):
                p['cancel_seq'] = e['seq']
                out.append(p)
    ix._abandoned = out
    return out


def _hang_mech(ix: Index, tree: set):
    """Why might an event tree never complete: F5 (an event of the tree, an ancestor or a descendant was open
    in the drain of a handler cancelled by a timeout); F14 (spawned task)."""
    for p in abandoned_procs(ix):
        ev = p['b']['ev']
        fam = {ev} | ix.desc(ev)
        if fam & tree or any(ix.desc(t) & fam for t in tree):
            return 'F5'
    if ix.has_spawn:
        return 'F14'
    return None


def c04(ix: Index) -> None:
    for a in ix.awaits:
        by = a['by']
        if not (isinstance(by, int) or (isinstance(by, str) and by[:1] in ('S', 'G'))):
            continue
        ix.C['c04_awaits'] += 1
        if isinstance(by, str) and by[:1] == 'G':
            ix.C['c04_awaits_in_gather_helper_tasks'] += 1
        e = a['e']
        if e is None:
            # no return: fine if the awaiting handler was cancelled / is itself blocked for a recorded reason
            if isinstance(by, int) or by in ix.gparent:
                x = ix.exit.get(by if isinstance(by, int) else ix.gparent[by])
                if x is not None and x['out'] == 'cancel' and x['seq'] < ix.quiet_seq:
                    continue  # cancelled during the scenario (timeout); a handler only ended by tear-down never returned
            if ix.sane and not _stopped_buses(ix):
                ix.v('C04', 'await-never-returns', 'F14' if isinstance(by, str) and by.startswith('S') else _hang_mech(ix, {a['ev']} | ix.desc(a['ev'])), ev=a['ev'], by=by)
            continue
        if e['exc'] is not None:
            if e['exc'] != 'CancelledError':
                ix.v('C04', 'await-raised', None, ev=a['ev'], exc=e['exc'])
            continue
        if e['why']:
            mechs = ix.explain_incomplete(e['why'], e['seq'], by, a['ev'])
            mech = _join(mechs)
            ix.v('C04', 'returned-incomplete', mech, ev=a['ev'], by=by, why=e['why'][:6], mechs=sorted(map(str, mechs)))
        else:
            ix.C['c04_complete'] += 1
        if not e['same']:
            ix.v('C04', 'await-returned-other-object', None, ev=a['ev'])


# ======================================================================== C05
def c05(ix: Index) -> None:
    # queue contents over time, to know which awaits are non-vacuous
    for a in ix.awaits:
        by = a['by']
        if not isinstance(by, int) or a['e'] is None:
            continue
        b_seq, e_seq = a['b']['seq'], a['e']['seq']
        queued = 0
        for r in ix.R:
            if r['seq'] >= b_seq:
                break
            if r['k'] == 'enq_ok' and r['ev'] != a['ev']:
                queued += 1
            elif r['k'] == 'deq' and r['ev'] != a['ev']:
                queued -= 1
        if queued > 0:
            ix.C['c05_awaits_with_backlog'] += 1
        ix.C['c05_awaits'] += 1
        fam = {a['ev']} | ix.desc(a['ev'])
        me = ix.inv[by]
        for r in ix.R:
            if r['k'] != 'h_enter' or not (b_seq < r['seq'] < e_seq) or r['ev'] in fam:
                continue
            if r['ev'] == me['ev'] and r['bus'] == me['bus'] and ix.par[me['bus']]:
                continue  # sibling handler of the awaiting handler's own event on a parallel bus
            chain = ix.driver_chain(r['seq'])
            mech = None
            if by in chain[1:]:
                # run by this await's own drain; F0 requires that the drain took it from a queue head
                pid = r.get('pid')
                p = ix.procs.get(pid)
                if p is not None:
                    took = [d for d in ix.deqs if d['ev'] == r['ev'] and d['bus'] == r['bus'] and d['seq'] < p['b']['seq'] and isinstance(d['by'], int) and d['by'] in chain]
                    # ... while the event that drain was waiting for was still incomplete: F0 is "works through the queue heads until
                    # the awaited event is done", a drain that goes on taking entries afterwards is something else
                    if took and not took[-1].get('awaited_done'):
                        mech = 'F0'
            else:
                mech = _overlap_mech(ix, r['seq'], by)
            ix.v('C05', 'unrelated-handler-during-await', mech, awaited=a['ev'], by=by, ran=r['ev'], h=r['h'], chain=[c if isinstance(c, str) else 'I' for c in chain][:6])


# ======================================================================== C06
def c06(ix: Index) -> None:
    running: dict[int, dict] = {}
    aw_depth: collections.Counter = collections.Counter()
    for r in ix.R:
        k = r['k']
        if k == 'h_enter':
            for i2, r2 in running.items():
                ix.C['c06_overlap_checks'] += 1
                if aw_depth[i2] > 0:
                    continue
                if r2['ev'] == r['ev'] and r2['bus'] == r['bus'] and ix.par[r['bus']]:
                    continue
                if ix.par[r2['bus']] and any(aw_depth[i3] > 0 for i3, r3 in running.items() if r3['ev'] == r2['ev'] and r3['bus'] == r2['bus']):
                    continue
                ix.v('C06', 'overlap', _overlap_mech(ix, r['seq'], i2), new={'bus': r['bus'], 'ev': r['ev'], 'h': r['h']}, other={'bus': r2['bus'], 'ev': r2['ev'], 'h': r2['h']}, vt=r['vt'],
                     first_use=[(x['bus'], x['by']) for x in ix.R if x['k'] == 'bus_new'])
            running[r['seq']] = r
            ix.C['c06_entries'] += 1
        elif k == 'h_exit':
            running.pop(r['inv'], None)
        elif k in ('aw_begin', 'step_begin') and isinstance(r['by'], int):
            # (a handler that drives a bus by hand - `await bus.step()` - is suspended waiting for event processing it asked for)
            aw_depth[r['by']] += 1
        elif k in ('aw_end', 'step_end') and isinstance(r['by'], int):
            aw_depth[r['by']] -= 1


# ======================================================================== C07
def c07(ix: Index) -> None:
    sc = ix.sc
    if ix.meta.get('abort') == 'nonquiet' or ix.meta.get('hang') in ('steps', 'horizon', 'livelock'):
        # the run was cut off. That is non-termination of forwarding only if some event kept going round: it was processed
        # by one bus more often than it was handed to that bus by anything but forwarding, several times over. A program
        # that is merely long (hundreds of events x 1 s handlers) is an inconclusive case, not a violation.
        worst = max(((len(lst), ev, b) for (ev, b), lst in ix.procs_by.items()), default=(0, None, None))
        if worst[0] > 3:
            ix.v('C07', 'forwarding-does-not-terminate', None, meta={k: ix.meta[k] for k in ('hang', 'abort', 'steps', 'vt')}, event=worst[1], bus=worst[2], times_processed=worst[0])
        else:
            ix.C['c07_cut_off_without_a_loop'] += 1
        return
    if not ix.sane:
        return
    nb = len(sc['buses'])
    # (the names the buses really carry: a bus created under a name that is taken is renamed by the library)
    actual = {r['bus']: r.get('name') for r in ix.R if r['k'] == 'bus_new'}
    names = [actual.get(i) or b['name'] for i, b in enumerate(sc['buses'])]
    live = [nm for i, nm in enumerate(names) if i in actual]
    if len(set(live)) != len(live):
        ix.v('C07', 'two-live-buses-share-a-name', None, names=live)
    cnt = collections.Counter(r['ev'] for r in ix.R if r['k'] == 'disp_call')
    redisp = {ev for ev, n in cnt.items() if n > 1}
    fin = ix.final['events']
    dup_pairs = {pair for pair, n in collections.Counter((a, d) for a, d, _p in sc.get('fwd', [])).items() if n > 1}
    late_reg = {r['k_']: r['seq'] for r in ix.R if r['k'] == 'on_fwd'}
    for ev, t in ix.evtype.items():
        firsts = [(r['seq'], b, r['by']) for (e, b), r in ix.accepted.items() if e == ev]
        if not firsts:
            continue
        firsts.sort()
        entry = firsts[0][1]
        if ev in redisp:
            # dispatched more than once by user code (again to the same bus, or handed to another bus): the buses that process it
            # are those reachable from EVERY bus it was handed to; counts and path order are not constrained here
            entries = {r['bus'] for r in ix.enq_ok if r['ev'] == ev and r['by'] != 'F'}
            stopped = _stopped_buses(ix)
            reach_m, st_m = set(entries), list(entries)
            while st_m:
                x = st_m.pop()
                for a, d, p in sc.get('fwd', []):
                    if a == x and pat_matches(p, t) and d not in reach_m:
                        reach_m.add(d)
                        st_m.append(d)
            got_m = {b for (e, b), lst in ix.procs_by.items() if e == ev and lst}
            ix.C['c07_redispatched_events'] += 1
            if got_m != reach_m and not (stopped & reach_m):
                ix.v('C07', 'reach-set-after-redispatch', None, ev=ev, handed_to=sorted(entries), want=sorted(reach_m), got=sorted(got_m))
            # the path still lists every bus that accepted the event exactly once, in order of FIRST arrival
            path_m = fin.get(ev, {}).get('path')
            want_m = [names[b] for _s, b, _by in firsts]
            if path_m is not None and path_m != want_m and not ix.mk.get(ev, {}).get('prepath'):
                ix.v('C07', 'event-path', None, ev=ev, path=path_m, want=want_m, redispatched=True)
            continue
        def closure(with_optional: bool) -> set:
            out, todo = {entry}, [entry]
            while todo:
                x = todo.pop()
                edges = [(a, d, p) for a, d, p in sc.get('fwd', [])]
                # forwards attached while the program runs count for this event if they were registered before bus a accepted it;
                # registered between acceptance and the start of a's processing they may or may not apply
                acc = ix.accepted.get((ev, x))
                pb = ix.procs_by.get((ev, x), [])
                for k_, (a, d, p) in enumerate(sc.get('late_fwd', [])):
                    reg = late_reg.get(k_)
                    if a != x or reg is None or acc is None:
                        continue
                    if reg < acc['seq'] or (with_optional and pb and reg < pb[0]['b']['seq']):
                        edges.append((a, d, p))
                for a, d, p in edges:
                    if a == x and pat_matches(p, t) and d not in out:
                        out.add(d)
                        todo.append(d)
            return out
        reach = closure(False)
        reach_max = closure(True) if sc.get('late_fwd') else reach
        ix.C['c07_events'] += 1
        if len(reach) > 1:
            ix.C['c07_forwarded_events'] += 1
        counts = collections.Counter(b for (e, b), lst in ix.procs_by.items() if e == ev for _ in lst)
        got = set(counts)
        if not (reach <= got <= reach_max):
            ix.v('C07', 'reach-set', None, ev=ev, entry=entry, want=sorted(reach), got=sorted(got))
        for b, n in counts.items():
            if n != 1:
                fw = [r for r in ix.enq_ok if r['ev'] == ev and r['bus'] == b and r['by'] == 'F']
                ix.v('C07', 'processed-count', None, ev=ev, bus=b, n=n, forwarded_enqueues=len(fw), duplicate_route=any(d == b for (_a, d) in dup_pairs))
        path = fin.get(ev, {}).get('path')
        want_path = [names[b] for _s, b, _by in firsts]
        if path != want_path:
            ix.v('C07', 'event-path', None, ev=ev, path=path, want=want_path)
        oids = {r['oid'] for r in ix.inv.values() if r['ev'] == ev}
        if len(oids) > 1:
            ix.v('C07', 'different-objects', None, ev=ev, n=len(oids))
        # results of all buses' handlers accumulate on the event
        want_res = collections.Counter(f'B{b}.h{hi}' for b in (got if reach <= got <= reach_max else reach) for hi in ix.handlers_for(ev, b))
        got_res = collections.Counter(x['hid'] for x in fin.get(ev, {}).get('results', []) if '.h' in x['hid'])
        if want_res != got_res:
            ix.v('C07', 'results-accumulate', None, ev=ev, want=dict(want_res), got=dict(got_res))
        if ix.disp_by.get(ev) is not None and isinstance(ix.disp_by[ev], str) and ix.disp_by[ev].startswith('A'):
            if fin.get(ev, {}).get('parent') is not None and not ix.mk[ev].get('xparent'):
                ix.v('C07', 'forwarded-root-got-parent', None, ev=ev, parent=fin[ev]['parent'])


# ======================================================================== C08
def c08(ix: Index) -> None:
    first_complete: dict[int, tuple] = {}
    obs = []
    for r in ix.R:
        if r['k'] in ('aw_end', 'proc_end', 'accessed', 'child_seen') and r.get('snap') is not None:
            obs.append((r['seq'], r['ev'], r['snap'], r['k']))
    for ev, f in ix.final['events'].items():
        obs.append((ix.end_seq, ev, tuple(f['snap']) if not isinstance(f['snap'], tuple) else f['snap'], 'final'))
    for seq, ev, snap, kind in obs:
        status, sig, results = snap[0], snap[1], tuple(map(tuple, snap[2]))
        fc = first_complete.get(ev)
        if fc is None:
            if status == 'completed' and sig:
                first_complete[ev] = (seq, status, results)
            continue
        ix.C['c08_reobservations'] += 1
        if status != fc[1] or results != fc[2]:
            old = {x[0]: x for x in fc[2]}
            new = {x[0]: x for x in results}
            changed = [k for k in new if k not in old or old[k] != new[k]] + [k for k in old if k not in new]
            mech = None
            buses = []
            for lab in changed:
                if isinstance(lab, str) and lab.startswith('B') and '.' in lab:
                    buses.append(int(lab[1:lab.index('.')]))
                else:
                    buses.append(None)
            if changed and all(b is not None and ix.via_forward(ev, b) for b in buses):
                mech = 'F4'
            elif not changed and status != fc[1]:
                mech = None
            ix.v('C08', 'changed-after-complete', mech, ev=ev, first=fc[0], at=seq, kind=kind, changed=changed[:5], status=(fc[1], status))
            first_complete[ev] = (seq, status, results)  # report each change once
    # the program continues in a second event loop: whatever was complete stays complete when looked at from there
    for rec in ix.final.get('second_loop') or []:
        if 'error' in rec:
            ix.v('C08', 'second-loop-observation-failed', None, error=rec['error'])
            continue
        ix.C['c08_second_loop_observations'] += 1
        before = rec['snap_before']
        after = rec['snap']
        same = (before[0], tuple(map(tuple, before[2]))) == (after[0], tuple(map(tuple, after[2])))
        if rec['sig'] is not True or rec['await'] != 'same' or rec['status'] != 'completed' or not same:
            ix.v('C08', 'not-complete-in-second-loop', None, ev=rec['ev'], sig=rec['sig'], await_=rec['await'], status=rec['status'], results_same=same)


# ======================================================================== C09
def c09(ix: Index) -> None:
    if not ix.sane:
        return
    fin = ix.final['events']
    child_lists = collections.defaultdict(list)
    for ev, f in fin.items():
        for x in f['results']:
            for c in x['children']:
                child_lists[c].append((ev, x['hid']))
    spawn_disp = {r['ev'] for r in ix.R if r['k'] == 'disp_call' and isinstance(r['by'], str) and r['by'].startswith('S')}
    accepted_evs = {e for (e, _b) in ix.accepted}
    for ev, f in fin.items():
        if ev in spawn_disp:
            continue
        ix.C['c09_events'] += 1
        xp = ix.mk[ev].get('xparent')
        if xp == 'none':
            xp = None  # event_parent_id=None passed explicitly is no parent at all
        by = ix.disp_by.get(ev)
        if xp == 'self':
            want_parent = ix.inv[by]['ev'] if isinstance(by, int) and by in ix.inv else None
        elif xp:
            want_parent = xp
        elif isinstance(by, int) and ev in accepted_evs:
            want_parent = ix.inv[by]['ev']
        elif isinstance(by, int):
            want_parent = '*'  # rejected everywhere: parent id of an event that never entered a bus is not observable state
        else:
            want_parent = None
        alt_parent = want_parent
        if want_parent is None and not xp:
            # created and first dispatched by top-level code (no parent), LATER passed on to another bus from inside a handler: the
            # statement covers both readings ("dispatched from ordinary code: no parent" / "dispatched inside a handler: that
            # handler's event"); the library fills the still empty parent id at that second dispatch
            later = next((r['by'] for r in ix.R if r['k'] == 'disp_ok' and r['ev'] == ev and isinstance(r['by'], int) and r['by'] in ix.inv and ix.inv[r['by']]['ev'] != ev), None)
            if later is not None:
                alt_parent = ix.inv[later]['ev']
        if want_parent != '*' and f['parent'] != want_parent and f['parent'] != alt_parent:
            ix.v('C09', 'parent-id', None, ev=ev, got=f['parent'], want=want_parent, by=by)
        got = child_lists.get(ev, [])
        # every handler invocation that dispatched this event object (the first one, and any handler that passed the existing
        # object on to another bus later) lists it among the children of ITS result; an event handed on by a handler of its own
        # (re-dispatch / relay of the event being handled) is not its own child
        disp_invs = [r['by'] for r in ix.R if r['k'] == 'disp_ok' and r['ev'] == ev and isinstance(r['by'], int) and r['by'] in ix.inv and ix.inv[r['by']]['ev'] != ev]
        per_inv = collections.Counter(disp_invs)
        if ev in accepted_evs:
            want = [(ix.inv[b]['ev'], f"B{ix.inv[b]['bus']}.h{ix.inv[b]['h']}") for b in per_inv]
        else:
            want = []
        if want and set(got) == set(want):
            # the same child object dispatched k times (to several buses) by one invocation is listed up to k times there
            cap = collections.Counter()
            for b, n in per_inv.items():
                cap[(ix.inv[b]['ev'], f"B{ix.inv[b]['bus']}.h{ix.inv[b]['h']}")] += n
            if all(1 <= n <= cap[k] for k, n in collections.Counter(got).items()):
                continue
        if sorted(got) != sorted(want):
            clause = 'rejected-dispatch-recorded-as-child' if ev not in accepted_evs and got else 'children-attribution'
            ix.v('C09', clause, None, ev=ev, got=got, want=want)
        if f['parent'] == ev:
            ix.v('C09', 'own-parent', None, ev=ev)
    for r in ix.R:
        if r['k'] == 'event_bus' and isinstance(r['by'], int):
            ix.C['c09_event_bus_reads'] += 1
            want = ix.inv[r['by']]['bus']
            if r['got'] != want:
                ix.v('C09', 'event_bus', None, got=r['got'], want=want, inv=r['by'], path=ix.inv[r['by']]['path'])


# ======================================================================== C11
def c11(ix: Index) -> None:
    fin = ix.final['events']
    for inv, x in ix.exit.items():
        i = ix.inv[inv]
        res = next((q for q in fin.get(i['ev'], {}).get('results', []) if q['hid'] == f"B{i['bus']}.h{i['h']}"), None)
        if x['out'] == 'raise':
            ix.C['c11_raises'] += 1
            if res is None or res['status'] != 'error' or not (res['eid'] == x['eid'] or (x['et'] in ('TimeoutError', 'CancelledError') and res['err'] == x['et'])):
                ix.v('C11', 'raise-not-captured', None, ev=i['ev'], h=i['h'], result=res, raised=x['et'])
    for r in ix.R:
        if r['k'] == 'retexc' and isinstance(r['by'], int):
            ix.C['c11_returned_exceptions'] += 1
            i = ix.inv[r['by']]
            res = next((q for q in fin.get(i['ev'], {}).get('results', []) if q['hid'] == f"B{i['bus']}.h{i['h']}"), None)
            if res is None or res['status'] != 'error' or res['eid'] != r['eid']:
                ix.v('C11', 'returned-exception-not-captured', None, ev=i['ev'], h=i['h'], result=res)
    for a in ix.awaits:
        if a['e'] is not None and a['e']['exc'] not in (None, 'CancelledError'):
            ix.v('C11', 'await-raised', None, ev=a['ev'], exc=a['e']['exc'])
    for r in ix.R:
        if r['k'] == 'proc_end' and r['exc'] not in (None, 'CancelledError'):
            ix.v('C11', 'exception-escaped-processing', None, ev=r['ev'], bus=r['bus'], exc=r['exc'])
        if r['k'] == 'loop_exc':
            ix.v('C11', 'unhandled-exception-in-loop', None, msg=r.get('msg'), exc=r.get('exc'))
    # everything accepted still completes
    if ix.sane:
        for ev, f in fin.items():
            if any(e == ev for (e, _b) in ix.accepted) and not f['sig']:
                ix.v('C11', 'event-not-complete', _hang_mech(ix, {ev} | ix.desc(ev)), ev=ev)


# ======================================================================== C13
def c13(ix: Index) -> None:
    limits = {i: b.get('hist') for i, b in enumerate(ix.sc['buses'])}
    order = [r['bus'] for r in ix.R if r['k'] == 'bus_new']
    for r in ix.R:
        k = r['k']
        if k in ('enq_ok', 'proc_end') and limits.get(r['bus']):
            ix.C['c13_bound_checks'] += 1
            if r['hist'] > limits[r['bus']]:
                ix.v('C13', 'history-over-limit', None, bus=r['bus'], n=r['hist'], limit=limits[r['bus']], at=k)
        elif k in ('h_enter', 'h_exit') and r.get('hl'):
            for pos, n in enumerate(r['hl']):
                if pos < len(order) and limits.get(order[pos]):
                    ix.C['c13_bound_checks'] += 1
                    if n > limits[order[pos]]:
                        ix.v('C13', 'history-over-limit', None, bus=order[pos], n=n, limit=limits[order[pos]], at=k)
        elif k == 'evict':
            ix.C['c13_evictions'] += 1
            kept = [x for x in r['before'] if x[3]]
            gone = [x for x in r['before'] if not x[3]]
            if len(kept) > r['limit']:
                ix.v('C13', 'cleanup-left-too-many', None, bus=r['bus'], kept=len(kept), limit=r['limit'])
            rank = {'completed': 0, 'started': 1, 'pending': 2}
            bad = None
            for g in gone:
                for q in kept:
                    if rank.get(q[1], 0) < rank.get(g[1], 0):
                        bad = ('class', g, q)
                    elif q[1] == g[1] and q[2] < g[2] - EPS:
                        bad = ('age', g, q)
                    if bad:
                        break
                if bad:
                    break
            if bad:
                ix.v('C13', 'eviction-order', None, bus=r['bus'], why=bad[0], evicted=bad[1], kept=bad[2])
            if len(r['before']) - len(gone) < min(len(r['before']), r['limit']):
                ix.v('C13', 'evicted-more-than-needed', None, bus=r['bus'], before=len(r['before']), after=len(kept), limit=r['limit'])


# ======================================================================== C14
def c14(ix: Index) -> None:
    fin = ix.final['events']
    stopped14 = _stopped_buses(ix)
    accepted_evs = collections.Counter()
    for r in ix.enq_ok:
        accepted_evs[(r['ev'], r['bus'])] += 1
    listed = collections.defaultdict(list)
    for ev, f in fin.items():
        for x in f['results']:
            for c in x['children']:
                listed[c].append((ev, x['hid']))
    for r in ix.R:
        if r['k'] == 'enq_raise':
            ix.C['c14_rejections'] += 1
            ev, bus = r['ev'], r['bus']
            before = any(q['seq'] < r['seq'] for q in ix.enq_ok if q['ev'] == ev and q['bus'] == bus)
            if r['inhist'] and not before:
                ix.v('C14', 'rejected-event-in-history', None, ev=ev, bus=bus, exc=r['exc'])
            anywhere = any(q['ev'] == ev for q in ix.enq_ok)
            if not anywhere and ev in listed:
                ix.v('C14', 'rejected-event-recorded-as-child', None, ev=ev, listed=listed[ev])
            if not anywhere and ix.sane:
                by = ix.disp_by.get(ev)
                if isinstance(by, int):
                    p = ix.inv[by]['ev']
                    tree = {p} | ix.desc(p)
                    if any(e in tree and b in stopped14 for (e, b) in ix.accepted):
                        continue  # a stopped bus abandons what it had accepted: the would-be parent may stay open for that reason
                    if not fin.get(p, {}).get('sig'):
                        # would-be parent must still complete (unless something else legitimately keeps it open)
                        others = [c for c in ix.kids.get(p, []) if not fin.get(c, {}).get('sig')]
                        if not others:
                            mech = _hang_mech(ix, {p} | ix.desc(p))
                            if mech == 'F5' and stopped14:
                                continue  # the parent's processing was abandoned when a stopped bus's handler (driving it inline) was cancelled
                            ix.v('C14', 'rejected-dispatch-blocks-parent', mech, parent=p, ev=ev)
            if not anywhere and fin.get(ev, {}).get('path') and not ix.mk[ev].get('prepath'):
                ix.v('C14', 'rejected-event-has-path', None, ev=ev, path=fin[ev]['path'])
    if ix.sane:
        for (ev, bus), n in accepted_evs.items():
            ix.C['c14_accepted'] += 1
            done = sum(1 for p in ix.procs_by.get((ev, bus), []) if p['e'] is not None)
            if done < n and bus not in _stopped_buses(ix):
                # every accepted dispatch is a queue entry of its own and is taken for processing (a second pass over an event
                # that already has its results runs no handler, but it is processed): accepted n times => processed n times
                ix.v('C14', 'accepted-event-never-processed', _hang_mech(ix, {ev}), ev=ev, bus=bus, accepted=n, processed=done)
    for r in ix.enq_ok:
        # nothing can run between the queue accepting the event and dispatch() returning: an event that is not in the bus's
        # queue at that moment was not accepted at all, whatever dispatch() returned
        if r.get('inq') is False:
            ix.v('C14', 'dispatch-returned-without-queueing', None, ev=r['ev'], bus=r['bus'], by=r['by'])
    for r in ix.R:
        if r['k'] == 'enq_call':
            nxt = next((q for q in ix.R if q['seq'] > r['seq'] and q['k'] in ('enq_ok', 'enq_raise') and q['ev'] == r['ev'] and q['bus'] == r['bus']), None)
            if nxt is None:
                ix.v('C14', 'dispatch-neither-returned-nor-raised', None, ev=r['ev'], bus=r['bus'])


def _stopped_buses(ix: Index) -> set:
    return {r['bus'] for r in ix.R if r['k'] == 'stop_call'}


# ======================================================================== C15
def c15(ix: Index) -> None:
    stopped = _stopped_buses(ix)
    calls = {r['seq']: r for r in ix.R if r['k'] == 'idle_call'}
    rets = {}
    for r in ix.R:
        if r['k'] in ('idle_ret', 'idle_hang'):
            if r['k'] == 'idle_ret' and r['by'] != 'M' and r['seq'] > ix.quiet_seq:
                continue  # only returned after quiescence (released by the harness's own probe or by tear-down): see its idle_hang record
            call_seq = r['call'] if r['by'] == 'M' else next((c['seq'] for c in calls.values() if c['call'] == r['call'] and c['by'] == r['by']), None)
            rets[call_seq] = r
    stop_rets = {}
    for r in ix.R:
        if r['k'] == 'stop_ret':
            stop_rets.setdefault(r['bus'], r['seq'])
    for cseq, c in calls.items():
        if c['bus'] in stopped:
            # a stopped bus abandons its backlog by design (whoever waits for that waits for ever) - but a bus that was stopped CLEAN
            # and has nothing queued, pending, started or unfinished when wait_until_idle() is called must let the caller go at once,
            # whatever was offered to it (and refused) in between
            clean = c.get('q0') == 0 and c.get('pend0') == 0 and c.get('started0') == 0 and c.get('unfinished0') == 0 and c.get('running0') is False
            if clean and c['bus'] in stop_rets and stop_rets[c['bus']] < c['seq'] and c['by'] != 'M':
                ix.C['c15_calls_on_a_cleanly_stopped_bus'] += 1
                r = rets.get(cseq)
                if (r is None or r['k'] == 'idle_hang' or r['vt'] - c['vt'] > 0.25) and _actor_fate(ix, c['by']) != 'cancelled':
                    ix.v('C15', 'never-returns-on-clean-stopped-bus', None, bus=c['bus'], by=c['by'], took=None if r is None else r['vt'] - c['vt'])
            continue
        r = rets.get(cseq)
        ix.C['c15_calls'] += 1
        if r is None or r['k'] == 'idle_hang':
            if c['by'] != 'M' and _actor_fate(ix, c['by']) == 'cancelled':
                continue
            if ix.sane:
                ix.v('C15', 'never-returns', _hang_mech_bus(ix, c['bus'], r), bus=c['bus'], by=c['by'], detail={k: r[k] for k in ('q', 'pend', 'started', 'unfinished')} if r else None)
            continue
        timed_out = c['timeout'] is not None and r['vt'] - c['vt'] >= c['timeout'] - EPS
        if timed_out:
            ix.C['c15_timed_out'] += 1
            continue
        if r['q'] or r['pend'] or r['started']:
            ix.v('C15', 'returned-while-busy', None, bus=c['bus'], q=r['q'], pend=r['pend'], started=r['started'])
        # ground truth: everything accepted before the call has finished processing there
        n_before = collections.Counter()
        for q in ix.enq_ok:
            if q['bus'] == c['bus'] and q['seq'] < c['seq']:
                n_before[q['ev']] += 1
        for ev, n in n_before.items():
            ix.C['c15_accepted_before_call'] += 1
            done = sum(1 for p in ix.procs_by.get((ev, c['bus']), []) if p['e'] is not None and p['e']['seq'] < r['seq'])
            if done < n:
                mech15 = _hang_mech(ix, {ev})
                ix.v('C15', 'returned-before-accepted-event-finished', mech15 if mech15 == 'F5' else None, bus=c['bus'], ev=ev, enq=n, done=done)  # (F14 does not explain an early return)
        # liveness at quiescence: the probe made by the harness must return within one poll period
        if c['by'] == 'M' and r['vt'] - c['vt'] > 0.25:
            ix.v('C15', 'slow-at-quiescence', None, bus=c['bus'], took=r['vt'] - c['vt'])


def _hang_mech_bus(ix: Index, bus: int, rec: dict | None = None):
    """F5 leaves the event that was open in the drain of a cancelled handler / cancelled await unfinished for ever (and with it
    its ancestors): every bus that has such an event in its history keeps a 'started' (or 'pending') event and therefore never
    reports idle.  A bus whose hang record shows nothing pending and nothing started is NOT explained by F5 (the queue's
    unfinished-task count was left behind: repaired, see 'fixed' F25); neither is a stuck event that F5 does not touch."""
    ab = abandoned_procs(ix)
    abev = {p['b']['ev'] for p in ab}
    if rec is not None and rec.get('k') == 'idle_hang':
        stuck = set(rec.get('pend') or []) | set(rec.get('started') or [])
        # (an event is 'started' / 'pending' for ever because of its OWN non-terminal results. For an abandoned event that is F5
        # only where the timeout path's sweep over the timed-out handler's tree did not reach it - the exact coverage rule of
        # _c10_mech; a swept event ends with terminal results. An event above an abandoned one is stuck through its handler
        # that awaits the completion signal F5 never sets)
        fired = _fired_invocations(ix)
        if stuck and all((e in abev and _c10_mech(ix, e, fired, 'pending') == 'F5') or (ix.desc(e) & abev) for e in stuck):
            return 'F5'
        return 'F14' if ix.has_spawn else None
    fin = ix.final['events']
    for p in ab:
        if bus < 0 or p['b']['bus'] == bus or any(e == p['b']['ev'] and b2 == bus for (e, b2) in ix.accepted):
            if fin.get(p['b']['ev'], {}).get('status') == 'completed':
                continue
            return 'F5'
    if ix.has_spawn:
        return 'F14'
    return None


# ======================================================================== C16
def c16(ix: Index) -> None:
    busy = [(r['vt'], ix.sc) for r in ix.R if r['k'] == 'op' and r['op'] == 'busy']
    calls = [r for r in ix.R if r['k'] == 'stop_call']
    for c in calls:
        if not c.get('running'):
            # stop() of a bus that was never started is documented as a no-op and a later dispatch auto-starts it:
            # nothing was running, so there is nothing the property speaks about
            ix.C['c16_stops_of_never_started_bus'] += 1
            continue
        ix.C['c16_stops'] += 1
        ret = next((r for r in ix.R if r['k'] == 'stop_ret' and r['call'] == c['call'] and r['by'] == c['by']), None)
        if ret is None:
            if isinstance(c['by'], int):
                x = ix.exit.get(c['by'])
                if x is not None and x['out'] == 'cancel' and x['seq'] < ix.quiet_seq:
                    continue  # a handler that stops the bus it runs on is cancelled together with that bus's run loop
            if _actor_fate(ix, c['by']) != 'cancelled':
                ix.v('C16', 'stop-never-returns', None, bus=c['bus'], timeout=c['timeout'], by=c['by'])
            continue
        # bounded: the optional idle wait (timeout) + 0.1 s grace for the run loop; blocking (sync) user code
        # that holds the loop during that window is added because nothing can run while it blocks
        blocked = 0.0
        for r in ix.R:
            if r['k'] == 'op' and r['op'] == 'busy' and c['seq'] < r['seq'] < ret['seq']:
                blocked += _busy_len(ix, r)
        bound = (c['timeout'] or 0.0) + 0.1 + blocked + 0.01
        if ret['vt'] - c['vt'] > bound:
            ix.v('C16', 'stop-too-slow', None, bus=c['bus'], took=ret['vt'] - c['vt'], bound=bound)
        late = [r for r in ix.inv.values() if r['bus'] == c['bus'] and r['seq'] > ret['seq']]
        ix.C['c16_after_stop_window_records'] += sum(1 for r in ix.R if r['seq'] > ret['seq'])
        if late:
            # F20: the event's processing was begun before stop() returned by the inline drain of a handler whose own
            # driver chain ends in ANOTHER bus's run loop: stop() of this bus cannot see or cancel that processing
            def f20(h):
                p = ix.procs.get(h['pid'])
                if p is None or p['b']['seq'] > ret['seq'] or not isinstance(p['b']['drv'], int):
                    return False
                root = ix.driver_chain(h['seq'])[-1]
                return isinstance(root, str) and root.startswith('R') and root != f"R{c['bus']}"
            def f16(h):
                # the processing hangs below two sibling handlers of one event on a parallel_handlers bus that were both inside an
                # await (two concurrent inline drains): stop()'s cancellation travels down ONE of them at a time
                p = ix.procs.get(h['pid'])
                if p is None or p['b']['seq'] > ret['seq']:
                    return False
                for i in ix.driver_chain(h['seq'])[1:]:
                    if isinstance(i, int) and i in ix.inv and ix.par[ix.inv[i]['bus']]:
                        me = ix.inv[i]
                        sibs = [j for j, q in ix.inv.items() if j != i and q['ev'] == me['ev'] and q['bus'] == me['bus']]
                        mine = [a for a in ix.awaits if a['by'] == i]
                        for a in ix.awaits:
                            if a['by'] in sibs and any(a['b']['seq'] < (m['e']['seq'] if m['e'] else ix.end_seq) and m['b']['seq'] < (a['e']['seq'] if a['e'] else ix.end_seq) for m in mine):
                                return True
                return False
            mech = 'F20' if all(f20(h) for h in late) else ('F16' if all(f16(h) or f20(h) for h in late) else None)
            ix.v('C16', 'handler-started-after-stop', mech, bus=c['bus'], n=len(late), first={'ev': late[0]['ev'], 'h': late[0]['h'], 'pid': late[0]['pid'],
                 'drv': ix.procs[late[0]['pid']]['b']['drv'] if late[0]['pid'] in ix.procs else None}, stop_ret=ret['seq'])
    if calls and ix.meta.get('hang') in ('livelock', 'steps'):
        ix.v('C16', 'bus-spins-forever-after-stop', None, hang=ix.meta.get('hang'), vt=ix.meta.get('vt'))
    for r in ix.R:
        if r['k'] == 'rl_cancel_wait':
            ix.C['c16_runloop_cancels'] += 1
            if c_at := r.get('cancel_seq'):
                # (observability: did the cancellation land inside a WAL append of that bus made by the run loop itself?)
                wb = [q for q in ix.R if q['k'] in ('wal_begin', 'wal_end') and q['bus'] == r['bus'] and q['seq'] < c_at]
                if wb and wb[-1]['k'] == 'wal_begin':
                    pb = next((q for q in reversed(ix.R) if q['k'] == 'proc_begin' and q['bus'] == r['bus'] and q['ev'] == wb[-1]['ev'] and q['seq'] < wb[-1]['seq']), None)
                    if pb is not None and not isinstance(pb['drv'], int):
                        ix.C['c16_runloop_cancels_inside_its_own_wal_append'] += 1
            # bound: 1 virtual second plus what the handlers cancelled by it needed for their own (awaited) clean-up, nested ones adding up
            c_rec = next((q for q in ix.R if q['seq'] == r.get('cancel_seq')), None)
            slow = False
            if r['done'] and c_rec is not None and r.get('waited', 1.0) > 1.0:
                unwind = sum(float(ix.sc['handlers'][ix.inv[q['inv']]['h']].get('cleanup', 0) or 0) for q in ix.R
                             if q['k'] == 'h_cancelled' and c_rec['seq'] < q['seq'] < r['seq'] and q['inv'] in ix.inv)
                unwind += sum(_busy_len(ix, q) for q in ix.R if q['k'] == 'op' and q['op'] == 'busy' and c_rec['seq'] < q['seq'] < r['seq'])  # blocking user code
                slow = r['vt'] - c_rec['vt'] > 1.0 + unwind + 1e-6
            if not r['done'] or slow:
                # F16: two sibling handlers of one event on a parallel_handlers bus were both inside an await when the cancellation
                # arrived: it travels down one of the concurrent drains at a time while the others go on taking queue entries
                mech = None
                at = r.get('cancel_seq', r['seq'])
                open_aw = [a for a in ix.awaits if isinstance(a['by'], int) and a['b']['seq'] < at and (a['e'] is None or a['e']['seq'] > at)]
                for a1 in open_aw:
                    for a2 in open_aw:
                        i1, i2 = ix.inv.get(a1['by']), ix.inv.get(a2['by'])
                        if i1 and i2 and a1['by'] != a2['by'] and i1['ev'] == i2['ev'] and i1['bus'] == i2['bus'] and ix.par[i1['bus']]:
                            mech = 'F16'
                ix.v('C16', 'cancelled-runloop-keeps-running', mech, bus=r['bus'])


def _busy_len(ix: Index, r) -> float:
    by = r['by']
    try:
        if isinstance(by, int):
            return float(ix.sc['handlers'][ix.inv[by]['h']]['prog'][r['i']][1])
    except Exception:
        pass
    return 0.0


ORACLES = {'C01': c01, 'C02': c02, 'C03': c03, 'C04': c04, 'C05': c05, 'C06': c06, 'C07': c07, 'C08': c08, 'C09': c09, 'C11': c11, 'C13': c13, 'C14': c14, 'C15': c15, 'C16': c16}


def evaluate(sc, tr, final, meta, props) -> Index:
    ix = Index(sc, tr, final, meta)
    for p in props:
        ORACLES[p](ix)
    return ix


# ======================================================================== C10
def c10(ix: Index) -> None:
    """Handler timeouts are enforced and contained."""
    fin = ix.final['events']
    fired = []
    has_busy = any(r['k'] == 'op' and r['op'] == 'busy' for r in ix.R)

    def arm_lo(v: int) -> float:
        """Earliest instant at which the library can have armed the timer of invocation v (see deadline_lo below)."""
        q = ix.procs.get(ix.inv[v]['pid'])
        return q['b']['vt'] if q is not None and has_busy else ix.inv[v]['vt']

    h_calls = [r for r in ix.R if r['k'] == 'h_call']
    for inv, i in ix.inv.items():
        to = ix.mk.get(i['ev'], {}).get('timeout')
        if to is None:
            continue
        x = ix.exit.get(inv)
        deadline = i['vt'] + to
        if ix.sc['handlers'][i['h']].get('retry'):
            # a handler decorated with @retry(semaphore_limit=..): the library started it (and its clock) at 'h_call'; the body was
            # entered when a slot became free
            hc_ = [r for r in h_calls if r['h'] == i['h'] and r['ev'] == i['ev'] and r['seq'] < inv]
            if hc_:
                deadline = hc_[-1]['vt'] + to
                if i['vt'] > deadline + 1e-3:
                    ix.v('C10', 'handler-runs-past-timeout', None, ev=i['ev'], h=i['h'], deadline=deadline, body_entered_at=i['vt'])
                    continue
        # the library arms the timer when it starts the handler, the body is entered at the same virtual instant - unless blocking
        # user code (sync 'busy') holds the loop in between: then the timer was armed somewhere between the start of this bus's
        # processing of the event and the body's first step
        pb = ix.procs.get(i['pid'])
        deadline_lo = (pb['b']['vt'] if pb is not None and has_busy else i['vt']) + to
        ix.C['c10_timed_invocations'] += 1
        kind = ix.sc['handlers'][i['h']].get('kind', 'async')
        if kind.startswith('s'):
            continue  # a sync handler cannot be interrupted; nothing to enforce
        ended = x['vt'] if x is not None else None
        if ended is not None and ended < deadline - EPS:
            # finished in time - unless it was CANCELLED before its own deadline without an enclosing handler's timeout explaining it
            hc0 = next((r for r in ix.R if r['k'] == 'h_cancelled' and r['inv'] == inv), None)
            if x['out'] == 'cancel' and hc0 is not None and hc0['vt'] < deadline_lo - 1e-3:
                explained = False
                for up in ix.driver_chain(inv)[1:]:
                    if isinstance(up, int) and up in ix.inv:
                        to_up = ix.mk.get(ix.inv[up]['ev'], {}).get('timeout')
                        if to_up is not None and arm_lo(up) + to_up <= hc0['vt'] + 1e-3:
                            explained = True
                if not explained and not _stopped_buses(ix):
                    ix.v('C10', 'handler-cancelled-before-its-own-timeout', None, ev=i['ev'], h=i['h'], deadline=deadline, cancelled_at=hc0['vt'])
            continue
        # the instant the cancellation was delivered to the handler body (it may need time to unwind after that)
        # asyncio delivers a cancellation inside-out: handlers nested below this one (run by its inline drain) see it first and
        # may take time to unwind (awaited cleanup) before this handler's own body sees it. "Cancelled at that time" therefore
        # means: the cancellation reached this handler or the innermost handler running on its behalf at the deadline.
        below = [r for r in ix.R if r['k'] == 'h_cancelled' and (r['inv'] == inv or inv in ix.driver_chain(r['inv'])[1:])]
        if below and x is not None and x['out'] == 'cancel':
            t_c = min(r['vt'] for r in below)
            ended = t_c
            x = dict(x, vt=t_c)
        ix.C['c10_timeouts_fired'] += 1
        fired.append(inv)
        res = next((q for q in fin.get(i['ev'], {}).get('results', []) if q['hid'] == f"B{i['bus']}.h{i['h']}"), None)
        # (a) cancelled at that time and stops executing
        late_ops = [r for r in ix.R if r['k'] == 'op' and r['op'] != 'cleanup_disp' and r['by'] == inv and r['vt'] > deadline + 1e-3]
        # blocking (sync) user code that holds the loop across the deadline delays the delivery of the cancellation by that much
        # (every blocking stretch that overlaps [deadline, observed cancellation]: several may follow one another without the loop
        # getting a turn in which the cancelled task could run)
        t_obs = x['vt'] if x is not None else deadline
        blocked = sum(_busy_len(ix, r) for r in ix.R if r['k'] == 'op' and r['op'] == 'busy' and r['vt'] <= t_obs + 1e-3 and r['vt'] + _busy_len(ix, r) >= deadline - 1e-3) if has_busy else 0.0
        if x is None or x['out'] != 'cancel' or x['vt'] > deadline + blocked + 1e-3 or late_ops:
            if ended is None or ended > deadline + blocked + 1e-3 or late_ops:
                ix.v('C10', 'handler-runs-past-timeout', None, ev=i['ev'], h=i['h'], deadline=deadline, exit=x and {'out': x['out'], 'vt': x['vt']}, late_ops=len(late_ops))
        # (b) result is a TimeoutError error
        if ix.sane and (res is None or res['status'] != 'error' or res['err'] != 'TimeoutError'):
            # if an enclosing handler's own timeout fired before this handler had finished unwinding, the library reports the
            # interruption by the parent (CancelledError) instead: both are "cancelled by a timeout", accept either
            real_exit = ix.exit.get(inv)
            enclosing_fired = False
            for up in ix.driver_chain(inv)[1:]:
                if isinstance(up, int) and up in ix.inv:
                    to_up = ix.mk.get(ix.inv[up]['ev'], {}).get('timeout')
                    if to_up is not None and real_exit is not None and arm_lo(up) + to_up <= real_exit['vt'] + 1e-3:
                        enclosing_fired = True
            if enclosing_fired and res is not None and res['status'] == 'error' and res['err'] == 'CancelledError':
                pass
            elif x is not None and x['out'] == 'cancel' or ended is None or ended > deadline + blocked + 1e-3:
                # (same allowance as in (a): blocking sync code that held the loop across the deadline delays both the handler's own
                # wake-up and the timer; a handler whose work was due before the deadline and that returned as soon as the loop ran
                # again finished in time)
                ix.v('C10', 'result-not-timeout-error', None, ev=i['ev'], h=i['h'], result=res)
    # a handler that raises TimeoutError itself (its own wait_for, a child's error re-raised) goes through the same library path
    raised_te = [inv for inv, x in ix.exit.items() if x['out'] == 'raise' and x['et'] == 'TimeoutError']
    for inv in raised_te:
        i = ix.inv[inv]
        ix.C['c10_user_raised_timeout_errors'] += 1
        res = next((q for q in fin.get(i['ev'], {}).get('results', []) if q['hid'] == f"B{i['bus']}.h{i['h']}"), None)
        if ix.sane and (res is None or res['status'] != 'error'):
            ix.v('C10', 'handler-raised-timeouterror-not-recorded-as-error', None, ev=i['ev'], h=i['h'], result=res)
    fired = fired + [inv for inv in raised_te if inv not in fired]
    # events whose timeout is zero or negative: their async handlers are cut before their first step (no invocation to look at);
    # the event is 'touched by the cancellation' all the same and must complete, with TimeoutError results for those handlers
    zero_evs = set()
    for (ev, bus) in ix.accepted:
        if ix.nonpos_timeout(ev) and bus not in _stopped_buses(ix):
            for hi in ix.handlers_for(ev, bus):
                if ix.sc['handlers'][hi].get('kind', 'async').startswith('s'):
                    continue
                zero_evs.add(ev)
                ix.C['c10_handlers_of_nonpositive_timeout_events'] += 1
                res = next((q for q in fin.get(ev, {}).get('results', []) if q['hid'] == f"B{bus}.h{hi}"), None)
                done = any(p['e'] is not None and p['e'].get('exc') is None for p in ix.procs_by.get((ev, bus), []))  # (processing that ran to its end; an abandoned one is F5's business below)
                if ix.sane and done and (res is None or res['status'] != 'error' or res['err'] not in ('TimeoutError', 'CancelledError')):
                    ix.v('C10', 'result-not-timeout-error', None, ev=ev, h=hi, result=res, timeout=ix.mk[ev]['timeout'])
    # likewise a @retry-decorated handler whose clock ran out while it was still waiting for its semaphore slot: no body, the event
    # is touched by that timeout all the same
    for r in h_calls:
        if ix.mk.get(r['ev'], {}).get('timeout') is None or any(q['h'] == r['h'] and q['ev'] == r['ev'] and q['seq'] > r['seq'] for q in ix.inv.values()):
            continue
        if r['bus'] in _stopped_buses(ix):
            continue
        zero_evs.add(r['ev'])
        res = next((q for q in fin.get(r['ev'], {}).get('results', []) if q['hid'] == f"B{r['bus']}.h{r['h']}"), None)
        done = any(p['e'] is not None and p['e'].get('exc') is None for p in ix.procs_by.get((r['ev'], r['bus']), []))
        if ix.sane and done and (res is None or res['status'] != 'error' or res['err'] not in ('TimeoutError', 'CancelledError')):
            ix.v('C10', 'result-not-timeout-error', None, ev=r['ev'], h=r['h'], result=res, waited_for_slot=True)
    if not fired and not zero_evs:
        return
    # (c) remaining handlers of the event still run; the event and every touched event completes
    if ix.sane:
        touched = set()
        for inv in fired:
            i = ix.inv[inv]
            touched.add(i['ev'])
            touched |= ix.desc(i['ev'])
            for hi in ix.handlers_for(i['ev'], i['bus']):
                n = sum(1 for q in ix.inv.values() if q['ev'] == i['ev'] and q['bus'] == i['bus'] and q['h'] == hi)
                if n == 0:
                    # not run because an ANCESTOR event's handler timed out (or raised TimeoutError itself) first: that handler's
                    # timeout path cancels the pending results of all child events of its event - this one among them - which is
                    # the "cancelled rather than left pending" clause at work one level up, not a handler that was skipped
                    res_h = next((q for q in fin.get(i['ev'], {}).get('results', []) if q['hid'] == f"B{i['bus']}.h{hi}"), None)
                    anc, cur, seen_a = [], i['ev'], set()
                    while cur in ix.parent_of and cur not in seen_a:
                        seen_a.add(cur)
                        cur = ix.parent_of[cur]
                        anc.append(cur)
                    # (cyclic child graphs: an event that a handler RE-dispatched is a child of that handler's event as well, whatever
                    # its own first parent was - everything above that event counts)
                    todo = [i['ev']]
                    while todo:
                        e_ = todo.pop()
                        for r_ in ix.R:
                            if r_['k'] == 'disp_call' and r_['ev'] == e_ and isinstance(r_['by'], int) and r_['by'] in ix.inv:
                                x_ = ix.inv[r_['by']]['ev']
                                if x_ not in anc and x_ != i['ev']:
                                    anc.append(x_)
                                    todo.append(x_)
                                    c2 = x_
                                    while c2 in ix.parent_of and ix.parent_of[c2] not in anc:
                                        c2 = ix.parent_of[c2]
                                        anc.append(c2)
                                        todo.append(c2)
                    if ix.sc['handlers'][hi].get('retry') and res_h is not None and res_h['err'] in ('TimeoutError', 'CancelledError') and any(r['h'] == hi and r['ev'] == i['ev'] for r in h_calls):
                        ix.C['c10_retry_handlers_timed_out_waiting_for_their_slot'] += 1
                        continue  # started by the library, timed out while still waiting for its semaphore slot: the body never ran
                    if ix.nonpos_timeout(i['ev']) and not ix.sc['handlers'][hi].get('kind', 'async').startswith('s') and res_h is not None and res_h['err'] == 'TimeoutError':
                        continue  # zero / negative timeout: an async sibling is cut before its first step (judged above)
                    if res_h is not None and res_h['err'] == 'RuntimeError' and _self_recursion_depth(ix, i['ev'], hi) >= 3:
                        ix.C['c10_handlers_refused_by_the_recursion_guard'] += 1
                        continue  # F2c (recorded for C01): the recursion guard refused the handler; nothing to do with the timeout
                    if res_h is not None and res_h['err'] == 'CancelledError' and any(q['err'] == 'TimeoutError' for a in anc for q in fin.get(a, {}).get('results', [])):
                        ix.C['c10_handlers_cancelled_by_an_ancestors_timeout'] += 1
                        continue
                if n != 1:
                    # F5: the timed-out handler's own event was itself being processed inside the drain of an enclosing
                    # handler that was cancelled by a timeout, so its processing was abandoned mid-way
                    mech = 'F5' if any(p['b']['seq'] == i['pid'] for p in abandoned_procs(ix)) else None
                    ix.v('C10', 'other-handler-of-event-not-run-once', mech, ev=i['ev'], h=hi, n=n)
        # events that were open in the drain of a timed-out handler are "touched" too
        for p in abandoned_procs(ix):
            touched.add(p['b']['ev'])
        touched |= zero_evs
        for ev in sorted(touched):
            f = fin.get(ev)
            if f is None or not any(e == ev for (e, _b) in ix.accepted):
                continue
            ix.C['c10_touched_events'] += 1
            if not f['sig']:
                ix.v('C10', 'touched-event-never-completes', _c10_mech(ix, ev, fired), ev=ev, status=f['status'], results=[(x['hid'], x['status'], x['err']) for x in f['results']])
            for x in f['results']:
                if x['status'] in ('pending', 'started'):
                    ix.v('C10', 'child-result-left-' + x['status'], _c10_mech(ix, ev, fired, 'pending'), ev=ev, hid=x['hid'])
        # (d) later events on the bus are processed; bus reports idle  (probe by harness at quiescence)
        for r in ix.R:
            if r['k'] == 'idle_hang':
                ix.v('C10', 'bus-never-idle-after-timeout', _hang_mech_bus(ix, r['bus'], r), bus=r['bus'], detail={k: r[k] for k in ('q', 'pend', 'started', 'unfinished')})
        for (ev, bus), n in collections.Counter((r['ev'], r['bus']) for r in ix.enq_ok).items():
            done = sum(1 for p in ix.procs_by.get((ev, bus), []) if p['e'] is not None)
            if done < 1:
                ix.v('C10', 'later-event-not-processed', _c10_mech(ix, ev, fired), ev=ev, bus=bus)
        for a in ix.awaits:
            if isinstance(a['by'], str) and a['by'].startswith('A') and a['e'] is None:
                ix.v('C10', 'awaiter-never-released', _c10_mech(ix, a['ev'], fired), ev=a['ev'])


def _fired_invocations(ix: Index) -> list:
    """Handler invocations that ran into their event's timeout, plus those that raised TimeoutError themselves (same library path)."""
    cached = getattr(ix, '_fired', None)
    if cached is not None:
        return cached
    out = []
    for inv, i in ix.inv.items():
        to = ix.mk.get(i['ev'], {}).get('timeout')
        if to is None or ix.sc['handlers'][i['h']].get('kind', 'async').startswith('s'):
            continue
        x = ix.exit.get(inv)
        if x is not None and x['vt'] < i['vt'] + to - EPS:
            continue
        out.append(inv)
    out += [inv for inv, x in ix.exit.items() if x['out'] == 'raise' and x['et'] == 'TimeoutError' and inv not in out]
    ix._fired = out
    return out


def _c10_effective(ix: Index, fired: list) -> set:
    """Timed-out invocations whose TIMEOUT PATH actually ran (their recorded result is the library's TimeoutError). A handler whose
    own deadline passed but which was overtaken, while still unwinding, by the cancellation of an enclosing handler is recorded
    as interrupted (CancelledError) and its timeout path - which cancels the pending results of its event's whole tree - never runs."""
    out = set()
    fin = ix.final['events']
    for inv in fired:
        i = ix.inv[inv]
        res = next((q for q in fin.get(i['ev'], {}).get('results', []) if q['hid'] == f"B{i['bus']}.h{i['h']}"), None)
        if res is not None and res['err'] == 'TimeoutError':
            out.add(inv)
    return out


def _desc_before(ix: Index, ev: int, seq: int) -> set:
    """Lineage descendants of ev counting only the dispatches (parent -> child links) made before trace position seq."""
    edges = getattr(ix, '_edges', None)
    if edges is None:
        edges = collections.defaultdict(list)
        for r in ix.R:
            if r['k'] == 'disp_call' and r.get('parent') is not None and r['parent'] != r['ev']:
                edges[r['parent']].append((r['seq'], r['ev']))
        ix._edges = edges
    out, st = set(), [ev]
    while st:
        x = st.pop()
        for s_, c in edges.get(x, ()):
            if s_ < seq and c not in out:
                out.add(c)
                st.append(c)
    return out


def _c10_abandoned(ix: Index, fired: list) -> list:
    """[(event X whose process_event was abandoned, covered)] - covered: X lies in the lineage tree of an event whose handler's
    timeout path ran (that path cancels the pending results of the whole tree)."""
    out = []
    eff = _c10_effective(ix, fired)
    for p in abandoned_procs(ix):
        x = p['b']['ev']
        chain = [p['b']['drv']] + (ix.driver_chain(p['b']['drv'])[1:] if isinstance(p['b']['drv'], int) else [])
        fired_at = [(ix.inv[c]['ev'], ix.exit[c]['seq'] if c in ix.exit else ix.end_seq) for c in chain if isinstance(c, int) and c in eff]
        # (strict descendants: the timeout path cancels the pending results of the event's CHILDREN; the event's own results on
        # another bus - it was being processed there, through a forward, inside its own handler's drain - are not touched by it.
        # And descendants AT THAT MOMENT: an event object that top-level code queued earlier and that a later handler of the same
        # event will pass on is, when the timeout path runs, still an unrelated queue head)
        covered = any(x in _desc_before(ix, e, at) for e, at in fired_at)
        out.append((x, covered, [c for c in chain if isinstance(c, int)]))
    return out


def _c10_mech(ix: Index, ev: int, fired: list, clause: str = 'incomplete'):
    """Exact F5 effects on the current tree.  The abandoned event itself never gets its completion signal (and its bus never
    reports idle).  If it is not in the tree of a handler whose timeout path ran (an unrelated queue head taken by the drain, or
    the timeout path was pre-empted) its not-yet-started results stay pending for ever.  Ancestors whose own processing is over
    are only ever completed by the upward walk at the end of the abandoned processing, which never happens.  What F5 does NOT
    explain: the event of the timed-out handler itself, still being processed by its bus, with everything abandoned below it
    cancelled by its timeout path - that event completes on the current tree."""
    ab = _c10_abandoned(ix, fired)
    abx = {x for x, _c, _ch in ab}
    if ev in abx:
        if clause == 'pending':
            return None if all(c for x, c, _ch in ab if x == ev) else 'F5'
        return 'F5'
    if clause == 'pending':
        return None
    below = [(x, c, ch) for x, c, ch in ab if x in ix.desc(ev)]
    if not below:
        return None
    # the one case F5 does not explain: everything abandoned below `ev` was abandoned by the timeout of ev's OWN handler (whose
    # timeout path ran and cancelled that whole tree) - ev is still being processed then, and completes on the current tree
    mine = {f for f in _c10_effective(ix, fired) if ix.inv[f]['ev'] == ev}
    if mine and all(c and any(f in ch for f in mine) for _x, c, ch in below):
        # ... provided the abandoned events' handlers had all finished unwinding by the time ev's own processing ended: the last
        # completion check of ev is made there, and a cancelled handler that is still running its clean-up (possible on a
        # parallel_handlers bus, whose handler tasks outlive the abandoned process_event) only becomes terminal afterwards, when
        # nothing walks up from the abandoned event any more - F5 again
        last_check = max((p['e']['seq'] for p in ix.procs_by_ev(ev) if p['e'] is not None), default=None)
        abx_below = {x for x, _c, _ch in below}
        late = [i for i in ix.inv.values() if i['ev'] in abx_below and (ix.exit.get(i['seq']) is None or last_check is None or ix.exit[i['seq']]['seq'] > last_check)]
        if not late:
            return None
    return 'F5'


ORACLES['C10'] = c10


# ======================================================================== C18
def _pred_eval(ps, tag, default):
    """Evaluate a predicate spec on an event tag. Returns True/False, or 'raise'."""
    if ps is None:
        return default
    if ps[0] == 'mod':
        return tag % ps[1] == ps[2]
    if ps[0] == 'true':
        return True
    if ps[0] == 'false':
        return False
    if ps[0] == 'raise':
        return 'raise' if tag % ps[1] == ps[2] else default
    raise AssertionError(ps)


def _c18_matches(spec, t, tag):
    if not pat_matches(spec['type'], t) or spec['type'] == '*':
        return False
    # library: include := orig_include(e) and predicate(e); then  include(e) and not exclude(e)
    inc = _pred_eval(spec.get('include'), tag, True)
    if inc == 'raise':
        return False
    if inc:
        pr = _pred_eval(spec.get('predicate'), tag, True)
        if pr == 'raise' or not pr:
            return False
    else:
        return False
    exc = _pred_eval(spec.get('exclude'), tag, False)
    if exc == 'raise':
        return False
    return not exc


def c18(ix: Index) -> None:
    calls = [r for r in ix.R if r['k'] == 'exp_call']
    rets = {r['call']: r for r in ix.R if r['k'] == 'exp_ret' and r['seq'] < ix.quiet_seq}
    static = collections.Counter()
    for h in ix.sc['handlers']:
        static[(h['bus'], pattern_key(h['pat']))] += 1
    for (a, _d, pat) in ix.sc.get('fwd', []):
        static[(a, pattern_key(pat))] += 1
    for c in calls:
        ix.C['c18_expects'] += 1
        spec, bus = c['spec'], c['bus']
        r = rets.get(c['seq'])
        # (a zero or negative timeout expires at once: the deadline is the instant of the call)
        D = c['vt'] + max(0.0, spec['timeout']) if spec.get('timeout') is not None else None
        end_vt = r['vt'] if r is not None else float('inf')
        end_seq = r['seq'] if r is not None else ix.quiet_seq
        # candidates: processed on that bus, processing begun after the call (handler set is fixed at process begin)
        cands = []
        for (ev, b), lst in ix.procs_by.items():
            if b != bus:
                continue
            for p in lst:
                if p['b']['seq'] > c['seq'] and _c18_matches(spec, ix.evtype.get(ev), ev):
                    cands.append((p['b']['seq'], ev, p))
        cands.sort()
        limit_vt = min(D if D is not None else float('inf'), end_vt if (r is not None and r['out'] == 'cancel') else float('inf'))
        must = [(s, ev, p) for (s, ev, p) in cands if p['e'] is not None and p['e']['vt'] < limit_vt - 1e-6 and p['e']['seq'] < end_seq]
        if r is None:
            # still pending at quiescence: legitimate only if nothing had to match and no deadline passed
            if _actor_fate(ix, c['by']) == 'cancelled':
                continue
            if must:
                ix.v('C18', 'pending-although-a-match-was-processed', None, spec=spec, bus=bus, first_match=must[0][1])
            elif D is not None:
                ix.v('C18', 'no-timeout-error-after-deadline', None, spec=spec, bus=bus, deadline=D)
            continue
        out = r['out']
        if out == 'match':
            ix.C['c18_matches'] += 1
            g = r['got']
            gp = next((p for (_s, ev, p) in cands if ev == g), None)
            if gp is None:
                ix.v('C18', 'returned-non-matching-or-foreign-event', None, spec=spec, bus=bus, got=g, type=ix.evtype.get(g))
            else:
                earlier = [(s, ev) for (s, ev, p) in must if ev != g and p['e']['seq'] < gp['b']['seq']]
                if earlier:
                    ix.v('C18', 'not-the-first-match', None, spec=spec, bus=bus, got=g, earlier=earlier[0][1])
                if D is not None and gp['b']['vt'] > D + 1e-6:
                    ix.v('C18', 'matched-event-processed-after-deadline', None, spec=spec, got=g)
        elif out == 'timeout':
            ix.C['c18_timeouts'] += 1
            if D is None:
                ix.v('C18', 'timeout-without-deadline', None, spec=spec)
            elif must:
                ix.v('C18', 'timeout-although-a-match-was-processed-in-time', None, spec=spec, bus=bus, first_match=must[0][1], deadline=D)
            elif abs(r['vt'] - D) > 1e-3:
                ix.v('C18', 'timeout-at-wrong-instant', None, spec=spec, at=r['vt'], deadline=D)
        elif out == 'cancel':
            ix.C['c18_cancellations'] += 1
        else:
            ix.v('C18', 'expect-raised', None, spec=spec, out=out)
        # subscription removed in every outcome: registry for the key == static handlers + other expects still pending
        pending_others = sum(1 for c2 in calls if c2 is not c and c2['bus'] == bus and c2['key'] == c['key'] and c2['seq'] < r['seq'] and (rets.get(c2['seq']) is None or rets[c2['seq']]['seq'] > r['seq']))
        want = static[(bus, c['key'])] + pending_others
        ix.C['c18_registry_checks'] += 1
        if r['reg'] != want:
            ix.v('C18', 'subscription-not-removed', None, spec=spec, out=out, registry=r['reg'], want=want)
    # at quiescence: nothing but static handlers and still-pending expects is registered
    for b, info in ix.final['buses'].items():
        for key, n in info['reg'].items():
            pend = sum(1 for c in calls if c['bus'] == b and c['key'] == key and rets.get(c['seq']) is None and _actor_fate(ix, c['by']) != 'cancelled')
            if n != static[(b, key)] + pend:
                ix.v('C18', 'leftover-subscription-at-quiescence', None, bus=b, key=key, registry=n, want=static[(b, key)] + pend)


ORACLES['C18'] = c18


# ======================================================================== C17
def c17(ix: Index) -> None:
    import datetime as _dt
    import json as _json

    from bubus import BaseEvent

    fin = ix.final
    faults_injected = sum(1 for r in ix.R if r['k'] == 'io_fault')
    for bi, b in enumerate(ix.sc['buses']):
        kind = b.get('wal')
        if not kind:
            continue
        info = fin['buses'].get(bi)
        if info is None:
            continue
        begins = [r for r in ix.R if r['k'] == 'wal_begin' and r['bus'] == bi]
        ends = {}
        for r in ix.R:
            if r['k'] == 'wal_end' and r['bus'] == bi:
                ends.setdefault(r['ev'], []).append(r)
        procs = sorted((p for (ev, bus), lst in ix.procs_by.items() if bus == bi for p in lst if p['e'] is not None), key=lambda p: p['b']['seq'])
        ix.C['c17_processed'] += len(procs)
        # one WAL attempt per processed event, after that event's handlers on this bus have finished
        if len(begins) != len(procs) and ix.sane:
            ix.v('C17', 'wal-attempts-differ-from-processed-events', None, bus=bi, attempts=len(begins), processed=len(procs))
        for wb in begins:
            p = next((p for p in ix.procs_by.get((wb['ev'], bi), []) if p['b']['seq'] < wb['seq'] and (p['e'] is None or p['e']['seq'] > wb['seq'])), None)
            if p is None:
                ix.v('C17', 'wal-write-outside-processing', None, bus=bi, ev=wb['ev'])
                continue
            late = [x for i, x in ix.exit.items() if ix.inv[i]['pid'] == p['b']['seq'] and x['seq'] > wb['seq']]
            not_started = [hi for hi in ix.handlers_for(wb['ev'], bi) if not any(q['pid'] == p['b']['seq'] and q['h'] == hi for q in ix.inv.values())]
            first_time = ix.procs_by[(wb['ev'], bi)][0] is p
            if late or (not_started and first_time and ix.sane):
                ix.v('C17', 'wal-written-before-handlers-finished', None, bus=bi, ev=wb['ev'], late=len(late), not_started=not_started)
        failing_path = kind in ('devfull', 'parentfile', 'isdir')
        text = info['wal']
        lines = [] if text is None else [ln for ln in text.split('\n')]
        if lines and lines[-1] == '':
            lines.pop()
        elif text:
            ix.v('C17', 'last-line-not-terminated', None, bus=bi)
        n_fail_expected = len(begins) if failing_path else None
        errors_logged = sum(1 for lvl, msg in fin['log'] if lvl == 'ERROR' and 'Failed to save event' in msg and msg.lstrip('❌ ').startswith(b['name']))
        if failing_path:
            ix.C['c17_failed_writes'] += len(begins)
            if errors_logged < len(begins):
                ix.v('C17', 'failing-write-not-reported', None, bus=bi, failures=len(begins), error_records=errors_logged, kind=kind)
            continue
        # healthy path (possibly with injected open/write failures on THIS bus's file): lines == attempts - injected failures
        faults_here = [r for r in ix.R if r['k'] == 'io_fault' and r.get('bus') == bi]
        # attempts for events whose payload has no JSON encoding fail as well (encode failure instead of open / write failure)
        unenc = [wb for wb in begins if 'unenc' in (ix.payloads.get(wb['ev']) or {})]
        ix.C['c17_failed_writes'] += len(faults_here)
        ix.C['c17_unencodable_events'] += len(unenc)
        if (faults_here or unenc) and errors_logged < len(faults_here) + len(unenc) - sum(1 for wb in unenc if any(wb['seq'] < f['seq'] for f in faults_here)):
            ix.v('C17', 'failing-write-not-reported', None, bus=bi, failures=len(faults_here) + len(unenc), error_records=errors_logged, kind='injected / unencodable')
        begins_enc = [wb for wb in begins if wb not in unenc]
        # (an injected open / write failure cannot hit an attempt that already failed to encode: count the faults that fell into
        # encodable attempts)
        def _in_unenc(f):
            for wb in unenc:
                e_seq = next((e['seq'] for e in ends.get(wb['ev'], []) if e['seq'] > wb['seq']), 10**12)
                if wb['seq'] < f['seq'] < e_seq:
                    return True
            return False
        faults_enc = [f for f in faults_here if not _in_unenc(f)]
        if len(lines) != len(begins_enc) - len(faults_enc):
            ix.v('C17', 'line-count', None, bus=bi, lines=len(lines), expected=len(begins_enc) - len(faults_enc), attempts=len(begins), injected_failures=len(faults_here), unencodable=len(unenc))
            continue
        ok_begins = list(begins_enc)
        # match lines to successful attempts by event id (two writes may be in flight at once on a parallel bus, so
        # the file order is only constrained for attempts that did not overlap)
        parsed = []
        for ln in lines:
            try:
                d = _json.loads(ln)
                back = BaseEvent.model_validate_json(ln)
                parsed.append((d, back, ln))
            except Exception as ex:
                ix.v('C17', 'line-does-not-validate', None, bus=bi, err=str(ex)[:200], line=ln[:200])
                parsed.append((None, None, ln))
        used = set()
        pos_of = {}
        for k, wb in enumerate(ok_begins):
            j = next((j for j, (d, back, _ln) in enumerate(parsed) if j not in used and back is not None and back.event_id == wb['eid']), None)
            if j is None:
                # legitimate only for an attempt that an injected failure hit: a fault of this bus lies inside its interval
                e_seq = next((e['seq'] for e in ends.get(wb['ev'], []) if e['seq'] > wb['seq']), 10**12)
                if not any(wb['seq'] < f['seq'] < e_seq for f in faults_here):
                    ix.v('C17', 'line-missing-for-processed-event', None, bus=bi, ev=wb['ev'])
                continue
            used.add(j)
            pos_of[k] = j
        for k1, w1 in enumerate(ok_begins):
            e1 = next((e['seq'] for e in ends.get(w1['ev'], []) if e['seq'] > w1['seq']), 10**12)
            for k2 in range(k1 + 1, len(ok_begins)):
                if e1 < ok_begins[k2]['seq'] and k1 in pos_of and k2 in pos_of and pos_of[k1] > pos_of[k2]:
                    ix.v('C17', 'lines-out-of-processing-order', None, bus=bi, first=w1['ev'], then=ok_begins[k2]['ev'])
        for k, wb in enumerate(ok_begins):
            if k not in pos_of:
                continue
            d, back, ln = parsed[pos_of[k]]
            ix.C['c17_lines'] += 1
            if not isinstance(d, dict):
                ix.v('C17', 'line-not-an-object', None, bus=bi)
                continue
            if back.event_id != wb['eid'] or back.event_type != wb['etype'] or back.event_parent_id != wb['parent'] or list(back.event_path) != wb['path']:
                ix.v('C17', 'line-metadata-differs', None, bus=bi, ev=wb['ev'], got={'id': back.event_id, 'type': back.event_type, 'parent': back.event_parent_id, 'path': list(back.event_path)},
                     want={'id': wb['eid'], 'type': wb['etype'], 'parent': wb['parent'], 'path': wb['path']})
            # payload: what the harness put on the event (JSON-mode), compared value by value
            want_payload = ix.payloads.get(wb['ev'])
            if want_payload is not None:
                ix.C['c17_payloads'] += 1
                for k, v in want_payload.items():
                    if k not in d:
                        ix.v('C17', 'payload-field-missing', None, bus=bi, ev=wb['ev'], field=k)
                    elif not _payload_eq(d[k], v, _dt):
                        ix.v('C17', 'payload-field-differs', None, bus=bi, ev=wb['ev'], field=k, got=repr(d[k])[:120], want=repr(v)[:120])
                if d.get('tag') != wb['ev']:
                    ix.v('C17', 'payload-field-differs', None, bus=bi, ev=wb['ev'], field='tag', got=d.get('tag'))
            if 'event_results' in d:
                ix.v('C17', 'line-contains-results', None, bus=bi, ev=wb['ev'])


def _payload_eq(got, want, _dt) -> bool:
    if isinstance(want, dict) and set(want) == {'$dt'}:
        if not isinstance(got, str):
            return False
        try:
            return _dt.datetime.fromisoformat(got.replace('Z', '+00:00')) == _dt.datetime.fromisoformat(want['$dt'])
        except Exception:
            return False
    if isinstance(want, dict) and set(want) == {'$utf8'}:
        return got == want['$utf8']  # a bytes value holding valid UTF-8 is written as that text (and reads back as the same bytes)
    if isinstance(want, dict):
        return isinstance(got, dict) and list(got.keys()) == list(want.keys()) and all(_payload_eq(got[k], want[k], _dt) for k in want)
    if isinstance(want, list):
        return isinstance(got, list) and len(got) == len(want) and all(_payload_eq(a, b, _dt) for a, b in zip(got, want))
    return type(got) is type(want) and got == want


ORACLES['C17'] = c17
